#!/usr/bin/env python3
"""Rebuilds the seeded-change table in DESIGN.md from seeded/*/meta.json."""
import json, glob, os, re
rows = []
for m in sorted(glob.glob("/verif/seeded/*/meta.json")):
    j = json.load(open(m))
    det = j.get("detection", [])
    caught = [d for d in det if d["result"] == "caught"]
    missed = [d for d in det if d["result"] == "missed"]
    what = j.get("summary", "")
    cls = ""
    if caught and caught[0].get("violations"): cls = caught[0]["violations"][0]["class"].split(" |")[0][:90]
    what = what
    rows.append("| %s | %s | %s | %s | %s |" % (j["id"], (what + (" - " + j["why_missed"] if j.get("why_missed") else "")).replace("|", "/"), ", ".join(d["check"] + (" (thorough)" if d.get("tier") == "thorough" else "") for d in caught) or "-", ", ".join(sorted({d["check"] for d in missed} - {d["check"] for d in caught if d.get("tier") != "thorough"})) or "-", cls.replace("|", "/")))
tab = "| id | change | caught by (quick) | missed by | first violation class |\n|---|---|---|---|---|\n" + "\n".join(rows)
s = open("/verif/DESIGN.md").read()
s = re.sub(r"SEEDED-TABLE-BEGIN.*?SEEDED-TABLE-END", "SEEDED-TABLE-BEGIN\n" + tab + "\nSEEDED-TABLE-END", s, flags=re.S)
open("/verif/DESIGN.md", "w").write(s)
print(len(rows), "rows")
