#!/bin/bash
# mkprobe.sh <plan> <op> <out>: turn a minimised failing plan into a probe
# plan for a known finding: the steps named <op> get the "known finding
# allowed" flag (a[5] = 999); the plan is minimised again and stored with its
# expected violation class and story.
set -e
in="$1"; op="$2"; out="$3"
tmp=$(mktemp)
awk -v op="$op" '$1=="S" && $2==op { $9=999 } $1!="expect" && substr($0,1,1)!="#" { print }' "$in" > "$tmp"
/verif/build/asan/sim.bin shrink "$tmp" "$out" | head -3
rm -f "$tmp"
