#!/bin/bash
# re-minimise every probe plan with the current simulator (refreshes the stored
# expectation and story after the harness changed); prints what each one does now
cd /verif
for f in known/KF-*.plan; do
  grep -v "^expect\|^#" $f > /tmp/tri/probe_in.plan
  out=$(build/asan/sim.bin shrink /tmp/tri/probe_in.plan /tmp/tri/probe_out.plan | head -2 | tr '\n' ' ' | cut -c1-220)
  if [ -s /tmp/tri/probe_out.plan ] && grep -q "^expect" /tmp/tri/probe_out.plan; then cp /tmp/tri/probe_out.plan $f; fi
  rm -f /tmp/tri/probe_out.plan
  echo "$f: $out"
done
