#!/bin/bash
# seed_eval.sh <patch.diff> <secs> <prop>... : apply a seeded change to /repo, run the
# named checks (quick tier, <secs> of search each), undo the change.  Prints one line per check.
patch=$1; secs=$2; shift 2
cd /verif
git -C /repo apply "$patch" || { echo "patch does not apply"; exit 2; }
for p in "$@"; do
  find /verif/replays -name "${p}_*.plan" -delete
  VERIF_SECS=$secs ./check.py $p quick > /tmp/tri/seed_$p.out 2>&1; rc=$?
  echo "check $p rc=$rc $(grep SUMMARY /tmp/tri/seed_$p.out | cut -d' ' -f5-9)"
  grep -A1 "^VIOLATION" /tmp/tri/seed_$p.out | head -4 | cut -c1-400
  grep "BROKEN" /tmp/tri/seed_$p.out | head -3 | cut -c1-300
done
git -C /repo checkout -- .
git -C /repo status --short | head -3
