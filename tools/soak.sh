#!/bin/bash
# soak.sh <seed> <secs> [profiles...]: run every profile once with the given seed; print a summary of alarms
seed=$1; secs=$2; shift 2
props="$@"; [ -z "$props" ] && props="C01 C02 C03 C04 C05 C06 C07 C08 C09 C10 C11 C12 C13 C14 C15 C16 C17 C18 C20"
mkdir -p /tmp/soak/$seed
cd /verif
for p in $props; do
  VERIF_SEED=$seed VERIF_SECS=$secs ./check.py $p quick > /tmp/soak/$seed/$p.out 2>&1
  echo "$p rc=$? $(grep SUMMARY /tmp/soak/$seed/$p.out | cut -d' ' -f5-9)"
done
for p in $props; do cat /tmp/soak/$seed/$p.out; done | grep -A1 "^VIOLATION" | grep "class=" | sed 's/node [0-9]* level -*[0-9]*/node N level L/; s/point [0-9]* ([0-9]*->[0-9]*)/point P/; s/e[0-9]*@F[0-9]*/eN@FN/g' | cut -c1-330 | sort | uniq -c | sort -rn
for p in $props; do cat /tmp/soak/$seed/$p.out; done | grep -h BROKEN | cut -c1-200 | sort | uniq -c | head
