#!/bin/bash
# story.sh <plan>: minimise a failing plan and print its human-readable story
out=/tmp/tri/$(basename $1 .plan).min.plan
/verif/build/asan/sim.bin shrink "$1" "$out" | head -3 | cut -c1-400
grep -v "^S " "$out" | cut -c1-400
