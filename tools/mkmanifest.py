#!/usr/bin/env python3
"""Regenerates /verif/MANIFEST.json (kept valid at all times)."""
import json, subprocess
TECH = "deterministic simulation with fault injection (seeded plans over the real library, per-step invariant monitors, dense-table reference model, seeded search over schedules and fault sequences, minimised replay files)"
REPLAY = "build/asan/sim.bin replay {path}"
L = {
 "C01": ("Seeded histories rebuild held functions along other construction paths (minterm collections in shuffled order, unions/maxima of single points, copies through other forests and back, exchange files) between node deaths, handle reuse, cache purges and dropped cache hits; monitor I2 compares every pair of held edges of a forest with their model tables in both directions (equal tables <=> equal edges) on the periodic pass and after every rebuild.", "section 11 C01"),
 "C02": ("Monitor I3 audits every active node of every forest through the public node-inspection interface (three unpackings agree, hashes agree, children live and strictly below, no duplicate, no transparent-only, no forbidden redundant node, quasi-reduced levels not skipped, identity-reduced singleton rule, EV normalisation, unique-table membership, node counts) after every step that changed the forest and periodically otherwise, over seeded histories with reordering, cross-forest operations and all storage/deletion/memory-manager policies.", "section 11 C02"),
 "C03": ("Every construction call (single minterm, collections combined by max/min with don't-care / don't-change mixes and defaults, constants, variables with and without terms, primed and unprimed) executed at arbitrary points of fault-injected multi-client histories is evaluated at every point of its (small) domain against the dense-table model.", "section 11 C03"),
 "C04": ("UNION/INTERSECTION/DIFFERENCE/COMPLEMENT/CROSS with operands and result spread over every mix of boolean forests (same forest, other rule, distinct forest of the same rule), warm/evicting/dropped caches; results and operands re-evaluated everywhere against the pointwise model; declined combinations are alarms for MT-boolean forests.", "section 11 C04"),
 "C05": ("Arithmetic, comparison, min/max, DIST_MIN, DIST_INC, user unary maps and MIN/MAX_RANGE over MT int/real and EV+ operands inside seeded histories; result tables compared pointwise (exact on the dyadic sub-domain), documented errors expected where the model finds an invalid scalar case.", "section 11 C05"),
 "C06": ("Reference recount I4 (children + registered root edges incl. edges held inside the library + nodes under construction = recorded incoming count; deletion-policy state invariant), I6 at drain points (everything reclaimed once edges are released and caches cleared), handle-reuse self-check, counter-width excursions (260..70000 copies), tiny handle arrays, under optimistic / pessimistic / never-delete policies. A second, stand-alone simulation (sim/ctr.cc) drives the real width-adapting counter_array behind the incoming counts with seeded link/unlink/swap/resize schedules biased to the 8/16/32-bit boundaries against a vector model.", "section 11 C06 and 15.2"),
 "C07": ("Cache transparency decided three ways: every result equals the model under tiny/evicting/purged tables and seeded dropped hits; cache recount I5 (entries mentioning a node = its cache count); and a differential companion run of the same plan with another table style/stale policy and all tables cleared before every step, which must give identical observations and node counts; every 12th plan (3rd in thorough) is also re-run with exactly one compute-table hit dropped at sampled steps (first / middle / last hit) and must observe the same. A second, stand-alone simulation (sim/ctr.cc) drives the real width-adapting counter_array behind the cache counts with seeded increment/decrement/swap/resize schedules biased to the 8/16/32-bit boundaries against a vector model.", "section 11 C07 and 15.2"),
 "C08": ("REACHABLE_TRAD_FS / _NOFS / SATUR forward and backward on seeded relations and initial sets compared with an explicit BFS closure, algorithms compared with each other (same edge), repeated calls through the cached operation object while other clients churn and purge; reference recount includes the operation's internal edges.", "section 11 C08"),
 "C09": ("PRE_IMAGE / POST_IMAGE on boolean, MT-integer-distance and EV+ operands and VM/MV_MULTIPLY on integer and real vectors, every relation rule, compared pointwise with the relational definition inside seeded histories.", "section 11 C09"),
 "C10": ("COPY for every ordered pair of forest kinds of the same shape (incl. distinct same-kind forests, EV+ and index-set sources), compared pointwise through the scalar conversion; there-and-back must give the identical edge when the model says nothing is lost.", "section 11 C10"),
 "C11": ("Iterators (with and without masks) as one-shot enumerations and as long-lived cursors advanced between other clients' operations, compared with the model's sorted list of non-default assignments; CARDINALITY in long/double/mpz against the model count; node/edge counts against an independent DAG walk.", "section 11 C11"),
 "C12": ("Differential: the same plan executed under a second, seed-chosen combination of storage flags, memory manager and deletion policy must give identical model-level observations, identical node/edge counts and an identical graph-shape hash (canonical structure up to renaming of node handles) per result; every manager runs under the chunk monitor I7.", "section 11 C12"),
 "C13": ("reorderVariables with all eight heuristics and both swap methods at arbitrary points with live edges and warm caches; afterwards the order is a permutation, every held edge evaluates to its model table under the new level map, other forests' edges are untouched, I2/I3/I4 hold.", "section 11 C13"),
 "C14": ("Roots (shared sub-graphs, terminal and repeated roots) written through an in-memory disk behind iostream and FILE* transports with seeded buffer cuts / short reads and read back into the same forest, another forest of the same kind or a forest created from the file; same functions in the same order, identical edges in the writing forest, I3+I4 on the receiving forest; one file in four is re-read with the input cut at every byte offset; half of the files stay on the simulated disk and are read again by later steps - after the writing forest was destroyed and re-created or after cleanup()/initialize(), where the file is the only surviving state - and the edges read are kept as held edges under I1/I2/I4.", "section 11 C14 and 15.2"),
 "C15": ("CONVERT_TO_INDEX_SET from fully- and quasi-reduced sources incl. empty/full sets inside seeded histories; numbering compared with the model's lexicographic numbering, getElement(i) for -1..n, cardinality of the index set.", "section 11 C15"),
 "C16": ("Misuse catalogue injected at arbitrary steps (operands from two domains, set/relation and range mismatches, wrong-shape result forest, 24 binary and 3 unary operations with one operand or the result forest over another domain or of the other shape, value outside the terminal range, zero divisor met inside the recursion, infinite subtrahend, exhausted iterator, detached edge); a MEDDLY::error with the documented code must be raised, and all monitors keep holding for everything held before; one division misuse in three sweeps the zero divisor over every point of the domain.", "section 11 C16 and 15.2"),
 "C17": ("Forest and domain destruction, forest re-creation and cleanup()/initialize() restarts at arbitrary steps with edges, iterators and cached operations alive; identifiers strictly increase, destroyed forests are unregistered, detached edges are inert, survivors pass all monitors and no registered operation mentions a destroyed forest; every 12th plan (3rd in thorough) is also re-run with a destruction or a restart inserted at seed-chosen positions; AddressSanitizer watches every run.", "section 11 C17 and 15.2"),
 "C18": ("Stand-alone simulation of the five memory-manager styles at the granularities the library uses: seeded request/recycle schedules with neighbour-biased recycling, a shadow map of every live chunk (size, disjointness by address, content pattern re-verified at recycle and in periodic scans), and allocation failures injected through a malloc/realloc link-time seam inside requestChunk.", "section 11 C18"),
 "C20": ("pregen_relation built from seeded event lists (by events), SATURATION_FORWARD compared with the explicit closure under the union of the events and with REACHABLE_TRAD_NOFS on the union relation (same edge), other clients working in the forests between build and compute.", "section 11 C20"),
}
NOTE = {
 "C18": "Chunk owner keeps the MSB of every slot clear (stricter than the managers require). In-forest use of the managers is additionally watched by the monitoring decorator in every other check.",
 "C20": "By-levels relations are a recorded defect (known_findings.txt) and exercised by a probe plan only; relation forests are identity- or quasi-reduced.",
 "C08": "Saturation over relation forests that are not identity-reduced and breadth-first search with input forest != result forest are recorded defects exercised by probe plans only.",
}
DEFNOTE = "Bounded domains (sets <= 96 states, relations <= 24 states), sampled histories (seeded search, not enumeration); trusted base: the dense-table model and monitors in /verif/sim, AddressSanitizer, g++ 12. Configurations listed in known_findings.txt are generated only by their probe plans."
checks = []
for pid in sorted(L):
    text, ref = L[pid]
    checks.append({
        "property_id": pid,
        "quick_cmd": "./check.py %s quick" % pid,
        "thorough_cmd": "./check.py %s thorough" % pid,
        "evidence_file": "/verif/evidence/%s.json" % pid,
        "replay_cmd_template": "python3 -c \"import check,sys; rc,out=check.replay(sys.argv[1]); print(out); sys.exit(rc)\" {path}",
        "engine": "sim",
        "level_claimed": {"category": "exploration", "text": text, "design_ref": "DESIGN.md " + ref},
        "level_note": NOTE.get(pid, DEFNOTE),
        "technique": TECH if pid != "C18" else "deterministic simulation with fault injection (seeded request/recycle schedules, shadow-map oracle, injected allocation failures)",
    })
hooks = subprocess.run(["git", "-C", "/repo", "log", "--format=%h %s"], stdout=subprocess.PIPE, text=True).stdout.splitlines()
hookc = [l.split()[0] for l in hooks if "verif hook" in l.lower()]
M = {
 "version": 1,
 "setup_cmd": "make -C /verif -j16 asan",
 "hooks": {
  "guard": "MEDDLY_VERIF",
  "enable": "checks compile /repo/src/**/*.cc themselves with -DMEDDLY_VERIF (see /verif/Makefile); verif_hooks.h is included from defines.h only under the guard",
  "baseline_off_cmd": "cd /repo && make -j16 >/dev/null && make -k check",
  "source_commits": hookc,
  "add_only": True,
 },
 "engines": [{
   "name": "sim", "path": "/verif/sim", "serves_properties": sorted(L),
   "kind_free_text": "single-binary deterministic simulator: seeded plan generator, step interpreter over the real library, dense-table model, invariant monitors, fault seams (compute-table hit drop / size knobs, handle-array knob, libc time+rand, in-memory disk with short reads and seeded buffer cuts, malloc/realloc failure), every run in its own forked process, greedy plan minimiser, replay files with a human-readable story"
 }],
 "checks": checks,
 "notes": "All checks are the same simulator under per-property profiles (workload mix, forest kinds, gating monitors). Genuine defects found are in known_findings.txt: 'fixed:' entries were repaired by fix: commits in /repo, 'finding:' entries are recorded, kept out of ordinary runs by the generator and re-confirmed by probe plans (KNOWN-FINDING lines).",
 "not_applicable": [{
   "property_id": "C19",
   "reason": "stateless bit-level codec: no schedule, history, configuration or fault reaches it; its quantifier calls for exhaustive enumeration, a different technique (DESIGN.md section 12)"
 }],
}
json.dump(M, open("/verif/MANIFEST.json", "w"), indent=1)
print("checks:", len(checks), "hook commits:", hookc)
