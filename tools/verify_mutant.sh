#!/bin/bash
# verify_mutant.sh <prop> <variant>: independently confirm a seeded change
# in the scratch worktree /tmp/mut/<prop>: (1) demo passes on the clean tree,
# (2) patch applies and builds, (3) existing test suite passes with it,
# (4) demo fails with it.  Leaves the worktree clean.  Result: /tmp/mut/verify/<prop>-<variant>.txt
p=$1; v=$2; B=${MUT_BASE:-/tmp/mut}
wt=$B/$p; src=$B/out/$p/$v; out=$B/verify/$p-$v.txt
mkdir -p $B/verify
exec > $out 2>&1
cd $wt || exit 1
git checkout -q -- . ; make -C src -j4 >/dev/null 2>&1
g++ -std=c++17 -I$wt/src -I$wt $src/demo.cc $wt/src/.libs/libmeddly.a -lgmp -o $B/verify/$p-$v.demo || { echo "RESULT demo does not compile"; exit 1; }
timeout -s KILL 300 $B/verify/$p-$v.demo >/dev/null 2>&1; clean_rc=$?
echo "clean demo rc=$clean_rc"
git apply $src/patch.diff || { echo "RESULT patch does not apply"; exit 1; }
make -C src -j4 >/dev/null 2>&1 || { echo "RESULT patched tree does not build"; git checkout -q -- .; exit 1; }
g++ -std=c++17 -I$wt/src -I$wt $src/demo.cc $wt/src/.libs/libmeddly.a -lgmp -o $B/verify/$p-$v.demo
timeout -s KILL 300 $B/verify/$p-$v.demo >/dev/null 2>&1; mut_rc=$?
echo "mutated demo rc=$mut_rc"
timeout -s KILL 3000 make -C tests -j4 -k check 2>&1 | grep -E "^(# (TOTAL|PASS|FAIL|ERROR)|FAIL|ERROR)"
pass=$(grep -h "^# PASS" tests/test-suite.log 2>/dev/null | awk '{print $3}')
fail=$(grep -h "^# FAIL" tests/test-suite.log 2>/dev/null | awk '{print $3}')
git checkout -q -- . ; make -C src -j4 >/dev/null 2>&1
echo "RESULT clean_rc=$clean_rc mut_rc=$mut_rc pass=$pass fail=$fail"
