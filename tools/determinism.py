#!/usr/bin/env python3
"""Determinism proof: every run index of a profile is executed in separate
processes under different worker counts and allocator perturbations; the
per-run (outcome, event hash) pairs must be identical.
  tools/determinism.py [runs_per_profile] [profile ...]
Exit 0: identical everywhere; 1: a divergence (printed)."""
import os, subprocess, sys, json
ROOT = os.path.dirname(os.path.dirname(os.path.abspath(__file__)))
BIN = os.path.join(ROOT, "build/asan/sim.bin")
n = int(sys.argv[1]) if len(sys.argv) > 1 else 200
props = sys.argv[2:] or ["C01","C02","C03","C04","C05","C06","C07","C08","C09","C10","C11","C12","C13","C14","C15","C16","C17","C20"]
seed = os.environ.get("VERIF_SEED", "20260922")
def sweep(prop, workers, perturb, thorough=False):
    env = dict(os.environ); env["MALLOC_PERTURB_"] = str(perturb)
    procs = []
    for w in range(workers):
        cmd = [BIN, "det", "--prop", prop, "--seed", seed, "--start", str(w), "--count", str(n), "--stride", str(workers), "--replays", os.path.join(ROOT, "replays")]
        if thorough: cmd.append("--thorough")
        procs.append(subprocess.Popen(cmd, stdout=subprocess.PIPE, text=True, env=env))
    res = {}
    for p in procs:
        out, _ = p.communicate()
        for l in out.splitlines():
            if l.startswith("{"):
                j = json.loads(l); res[j["run"]] = (j["ok"], j["cls"], j["hash"])
    return res
bad = 0
total = 0
for prop in props:
    a = sweep(prop, 16, 165)
    b = sweep(prop, 5, 7)
    c = sweep(prop, 11, 0)
    diff = [i for i in sorted(a) if a[i] != b.get(i) or a[i] != c.get(i)]
    total += len(a)
    print("%s: %d runs x 3 configurations, %d divergent, %d failing" % (prop, len(a), len(diff), sum(1 for v in a.values() if not v[0])))
    for i in diff[:5]: print("   run", i, a[i], b.get(i), c.get(i))
    bad += len(diff)
    sys.stdout.flush()
print("TOTAL %d runs, %d divergent" % (total, bad))
sys.exit(1 if bad else 0)
