#!/bin/bash
# mkwt.sh <dir> : scratch git worktree of /repo (HEAD), with the generated
# autotools files copied in so that ./configure && make work offline.
set -e
d="$1"
git -C /repo worktree add --detach "$d" HEAD >/dev/null 2>&1
cd /repo
for f in configure Makefile.in aclocal.m4 ar-lib compile config.guess config.sub config.h.in depcomp install-sh ltmain.sh missing test-driver \
         examples/Makefile.in src/Makefile.in tests/Makefile.in timing/Makefile.in; do
  [ -e "$f" ] && cp -p "$f" "$d/$f"
done
mkdir -p "$d/m4"; cp -p m4/*.m4 "$d/m4/" 2>/dev/null || true
cd "$d"
./configure >/dev/null 2>&1
echo "worktree ready: $d"
