#!/usr/bin/env python3
"""seed_register.py <prop> <variant> <secs> <check> [<check>...]
Copies a confirmed seeded change from /tmp/mut/out into /verif/seeded/<prop>-<variant>/,
applies it to /repo, runs the named checks (quick tier, <secs> each), undoes it,
and records everything in meta.json."""
import json, os, re, shutil, subprocess, sys, time
prop, var, secs = sys.argv[1], sys.argv[2], sys.argv[3]
checks = sys.argv[4:] or [prop]
if checks == ["-"]: checks = []   # only refresh the files and the confirmation record
sid = "%s-%s" % (prop, var)
BASE = os.environ.get("MUT_BASE", "/tmp/mut")
src = "%s/out/%s/%s" % (BASE, prop, var)
dst = "/verif/seeded/%s" % sid
os.makedirs(dst, exist_ok=True)
if os.path.isdir(src):
    for f in ("patch.diff", "demo.cc", "notes.md"):
        if os.path.exists(os.path.join(src, f)): shutil.copy(os.path.join(src, f), os.path.join(dst, f))
meta_path = os.path.join(dst, "meta.json")
meta = json.load(open(meta_path)) if os.path.exists(meta_path) else {}
meta.update({"id": sid, "property": prop, "origin": "independent sub-agent given only the property text and a scratch worktree"})
v = "%s/verify/%s.txt" % (BASE, sid)
if os.path.exists(v):
    t = open(v).read()
    m = re.search(r"RESULT clean_rc=(\d+) mut_rc=(\d+) pass=(\d*) fail=(\d*)", t)
    if m:
        meta["confirmed"] = {"demo_rc_unchanged_tree": int(m.group(1)), "demo_rc_with_change": int(m.group(2)),
                             "existing_tests_pass": int(m.group(3) or 0), "existing_tests_fail": int(m.group(4) or 0),
                             "how": "tools/verify_mutant.sh in scratch worktree %s/%s (apply, rebuild, make -C tests -k check, demo; then reverted)" % (BASE, prop)}
notes = open(os.path.join(dst, "notes.md")).read() if os.path.exists(os.path.join(dst, "notes.md")) else ""
meta.setdefault("needs_to_manifest", "see notes.md")
r = subprocess.run(["git", "-C", "/repo", "apply", os.path.join(dst, "patch.diff")]) if checks else subprocess.run(["true"])
if r.returncode != 0:
    print("patch does not apply to /repo HEAD"); sys.exit(2)
det = meta.setdefault("detection", [])
try:
    for c in checks:
        for f in os.listdir("/verif/replays"):
            if f.startswith(c + "_"): os.remove(os.path.join("/verif/replays", f))
        env = dict(os.environ); env["VERIF_SECS"] = secs
        t0 = time.time()
        p = subprocess.run(["./check.py", c, "quick"], cwd="/verif", stdout=subprocess.PIPE, stderr=subprocess.STDOUT, text=True, env=env)
        out = p.stdout
        summ = re.search(r"SUMMARY.*", out)
        viol = re.findall(r"VIOLATION property=(\S+) replay=(\S+)\n\s+class=(.*)", out)
        entry = {"check": c, "tier": "quick", "search_secs": int(secs), "rc": p.returncode,
                 "result": "caught" if p.returncode == 1 else ("missed" if p.returncode == 0 else "checker-broken"),
                 "summary": summ.group(0) if summ else "", "wall_s": round(time.time() - t0, 1),
                 "repo_head": subprocess.run(["git", "-C", "/repo", "rev-parse", "--short", "HEAD"], stdout=subprocess.PIPE, text=True).stdout.strip()}
        if viol:
            entry["violations"] = [{"property": a, "class": c3[:300]} for a, b, c3 in viol[:4]]
            # keep the first minimised replay as an example
            try:
                shutil.copy(viol[0][1], os.path.join(dst, "caught_by_%s%s" % (c, os.path.splitext(viol[0][1])[1] or ".plan")))
            except Exception: pass
        if p.returncode == 2: entry["broken"] = re.findall(r"CHECK-BROKEN.*", out)[:3]
        det[:] = [d for d in det if d.get("check") != c] + [entry]
        print(sid, c, entry["result"], entry["summary"], (entry.get("violations") or [{}])[0].get("class", "")[:160])
finally:
    subprocess.run(["git", "-C", "/repo", "checkout", "--", "."])
json.dump(meta, open(meta_path, "w"), indent=1)
