#!/usr/bin/env python3
"""Merges seeded/summaries.json (what each change is, what it needs to manifest) into
the meta.json files and rebuilds the table in DESIGN.md."""
import json, glob, os, subprocess
S = json.load(open("/verif/seeded/summaries.json"))
for m in sorted(glob.glob("/verif/seeded/*/meta.json")):
    j = json.load(open(m))
    s = S.get(j["id"], {})
    j["summary"] = s.get("summary", j.get("summary", ""))
    j["needs_to_manifest"] = s.get("needs", j.get("needs_to_manifest", ""))
    j["breaks_property"] = j["property"]
    j["what_was_run"] = ("tools/verify_mutant.sh %s %s (scratch worktree: demo on clean tree, apply, rebuild, existing suite, demo with change, revert); "
                         "tools/seed_register.py %s %s <secs> <checks> (git -C /repo apply, ./check.py <check> quick, git -C /repo checkout -- .)"
                         % (j["property"], j["id"].split("-")[1], j["property"], j["id"].split("-")[1]))
    json.dump(j, open(m, "w"), indent=1)
subprocess.run(["python3", "/verif/tools/seeded_table.py"])
