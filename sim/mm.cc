// C18: stand-alone memory-manager simulation.  Clients request and recycle
// chunks of seed-chosen sizes under a seeded schedule; the allocator seam
// (link-time wrappers around malloc/realloc) injects allocation failures
// inside requestChunk.  Oracle: a shadow map of every live chunk.
#include "prng.h"
#include "../src/meddly.h"

#include <cstdio>
#include <cstdlib>
#include <cstring>
#include <chrono>
#include <map>
#include <sstream>
#include <string>
#include <vector>

using namespace MEDDLY;
using namespace sim;

// ---- allocator seam ---------------------------------------------------
static bool g_fail_armed = false;
static long g_fail_countdown = 0;
static long g_fail_fired = 0;

extern "C" {
void* __real_malloc(size_t);
void* __real_realloc(void*, size_t);
void* __wrap_malloc(size_t n)
{
    if (g_fail_armed && --g_fail_countdown <= 0) { g_fail_armed = false; g_fail_fired++; return nullptr; }
    return __real_malloc(n);
}
void* __wrap_realloc(void* p, size_t n)
{
    if (g_fail_armed && --g_fail_countdown <= 0) { g_fail_armed = false; g_fail_fired++; return nullptr; }
    return __real_realloc(p, n);
}
}

struct Chunk {
    node_address h;
    size_t slots;       // as handed out
    uint64_t id;
};

struct MMResult {
    bool ok = true;
    std::string detail;
    long requests = 0, recycles = 0, failures = 0, grown = 0, scans = 0, reuse = 0;
    size_t peak = 0;
};

static uint64_t slotPattern(uint64_t id, size_t i, unsigned gran)
{
    uint64_t v = mix64(id, i);
    if (gran == 4) return v & 0x7fffffffULL;
    if (gran == 2) return v & 0x7fffULL;
    return v & 0x7fffffffffffffffULL;
}

static void fill(memory_manager* M, const Chunk &c, unsigned gran)
{
    unsigned char* p = (unsigned char*) M->getChunkAddress(c.h);
    for (size_t i = 0; i < c.slots; i++) {
        uint64_t v = slotPattern(c.id, i, gran);
        memcpy(p + i * gran, &v, gran);
    }
}

static bool verify(memory_manager* M, const Chunk &c, unsigned gran, size_t &bad)
{
    const unsigned char* p = (const unsigned char*) M->getChunkAddress(c.h);
    for (size_t i = 0; i < c.slots; i++) {
        uint64_t v = slotPattern(c.id, i, gran), w = 0;
        memcpy(&w, p + i * gran, gran);
        if (w != v) { bad = i; return false; }
    }
    return true;
}

static const memory_manager_style* styleOf(int w)
{
    switch (w) {
        case 0: return ORIGINAL_GRID;
        case 1: return ARRAY_PLUS_GRID;
        case 2: return HEAP_MANAGER;
        case 3: return MALLOC_MANAGER;
        default: return FREELISTS;
    }
}
static const char* styleName(int w)
{
    static const char* n[] = { "ORIGINAL_GRID", "ARRAY_PLUS_GRID", "HEAP_MANAGER", "MALLOC_MANAGER", "FREELISTS" };
    return n[w];
}

// one run: returns description of the configuration in `cfg`
static void mmRun(uint64_t seed, bool thorough, bool faults, MMResult &R, std::string &cfg,
        int forceStyle = -1, long maxops = -1, std::vector<std::string>* trace = nullptr)
{
    Rng G(seed);
    const int style = forceStyle >= 0 ? forceStyle : int(G.below(5));
    unsigned gran = 4;
    unsigned minsize = 3;
    size_t lo = 4, hi;
    if (style == 4) {
        gran = G.chance(1, 2) ? 4 : 8;
        minsize = 2; lo = 2; hi = 15;
    } else {
        static const size_t his[] = { 8, 24, 64, 300 };
        hi = his[G.below(4)];
    }
    const long nops = maxops >= 0 ? maxops : (thorough ? 2000 + long(G.below(8000)) : 200 + long(G.below(1500)));
    const unsigned relPct = 30 + unsigned(G.below(40));   // release probability
    const bool huge = G.chance(1, 2);
    const unsigned failPermille = faults ? 5 + unsigned(G.below(20)) : 0;
    std::ostringstream c;
    c << styleName(style) << " gran=" << gran << " sizes=" << lo << ".." << hi << " ops=" << nops
      << " release%=" << relPct << " allocfail/1000=" << failPermille;
    cfg = c.str();

    memstats ms;
    memory_manager* M = styleOf(style)->initManager((unsigned char) gran, (unsigned char) minsize, ms);
    if (!M) { R.ok = false; R.detail = cfg + ": initManager returned null"; return; }
    std::vector<Chunk> live;
    // recycled address ranges that have not been handed out again: used to
    // recognise reuse (statistic only)
    uint64_t nextid = 1;
    auto failWith = [&](const std::string &s) { if (R.ok) { R.ok = false; R.detail = cfg + ": " + s; } };

    for (long op = 0; op < nops && R.ok; op++) {
        const bool doRelease = !live.empty() && (G.below(100) < relPct || live.size() > 4000);
        if (!doRelease) {
            size_t want = lo + size_t(G.below(hi - lo + 1));
            if (G.chance(1, 8)) want = lo;      // minimum
            // now and then one request that dwarfs everything so far (larger
            // than the whole arena: growth must cover the request itself)
            if (style != 4 && huge && G.chance(1, 150)) want = 500 + size_t(G.below(4000));
            size_t got = want;
            const bool inject = failPermille && G.below(1000) < failPermille;
            if (inject) { g_fail_armed = true; g_fail_countdown = 1; }
            node_address h = 0;
            bool threw = false;
            try {
                h = M->requestChunk(got);
            }
            catch (MEDDLY::error &e) {
                threw = true;
                if (e.getCode() != error::INSUFFICIENT_MEMORY) failWith(std::string("requestChunk threw ") + e.getName());
                else if (!inject) failWith("requestChunk reported INSUFFICIENT_MEMORY without an allocation failure");
            }
            g_fail_armed = false;
            R.requests++;
            if (trace) { std::ostringstream t; t << "req " << want << " -> " << (threw ? -1 : long(got)); trace->push_back(t.str()); }
            if (threw || h == 0) {
                if (!threw && !inject) failWith("requestChunk returned 0 without an allocation failure");
                R.failures++;
                // documented failure: every live chunk must be untouched
            } else {
                if (got < want) { std::ostringstream o; o << "asked " << want << " slots, got " << got; failWith(o.str()); break; }
                if (!M->isValidHandle(h)) failWith("requestChunk returned a handle isValidHandle rejects");
                Chunk ck { h, got, nextid++ };
                // overlap test against every live chunk, by address
                const unsigned char* a0 = (const unsigned char*) M->getChunkAddress(h);
                const unsigned char* a1 = a0 + got * gran;
                for (const Chunk &o : live) {
                    const unsigned char* b0 = (const unsigned char*) M->getChunkAddress(o.h);
                    const unsigned char* b1 = b0 + o.slots * gran;
                    if (a0 < b1 && b0 < a1) {
                        std::ostringstream s; s << "new chunk of " << got << " slots overlaps a live chunk of " << o.slots << " slots";
                        failWith(s.str());
                        break;
                    }
                }
                if (!R.ok) break;
                fill(M, ck, gran);
                live.push_back(ck);
                if (live.size() > R.peak) R.peak = live.size();
            }
        } else {
            size_t k = size_t(G.below(live.size()));
            // bias: recycle neighbours to provoke coalescing
            if (G.chance(1, 3) && k + 1 < live.size()) k = k + 1;
            Chunk ck = live[k];
            size_t bad;
            if (!verify(M, ck, gran, bad)) {
                std::ostringstream s; s << "contents of a live chunk (" << ck.slots << " slots) changed at slot " << bad << " before it was recycled";
                failWith(s.str());
                break;
            }
            live[k] = live.back(); live.pop_back();
            if (trace) { std::ostringstream t; t << "rec " << ck.slots; trace->push_back(t.str()); }
            try { M->recycleChunk(ck.h, ck.slots); }
            catch (MEDDLY::error &e) { failWith(std::string("recycleChunk threw ") + e.getName()); }
            R.recycles++;
        }
        // periodic full scan
        if (op % 64 == 63 || op == nops - 1) {
            R.scans++;
            for (const Chunk &o : live) {
                size_t bad;
                if (!M->isValidHandle(o.h)) { failWith("a live handle became invalid"); break; }
                if (!verify(M, o, gran, bad)) {
                    std::ostringstream s; s << "contents of a live chunk (" << o.slots << " slots) were altered at slot " << bad;
                    failWith(s.str());
                    break;
                }
            }
        }
    }
    // drain
    if (R.ok) {
        for (const Chunk &o : live) { try { M->recycleChunk(o.h, o.slots); } catch (...) { failWith("recycleChunk threw during drain"); } }
    } else if (M->mustRecycleManually()) {
        for (const Chunk &o : live) { try { M->recycleChunk(o.h, o.slots); } catch (...) { } }
    }
    delete M;
}

static const char* aval(int argc, char** argv, const char* key, const char* deflt)
{
    for (int i = 1; i + 1 < argc; i++) if (!strcmp(argv[i], key)) return argv[i+1];
    return deflt;
}

int mmMain(int argc, char** argv)
{
    const uint64_t seed = strtoull(aval(argc, argv, "--seed", "1"), nullptr, 10);
    const long start = atol(aval(argc, argv, "--start", "0"));
    const long count = atol(aval(argc, argv, "--count", "100"));
    const long stride = atol(aval(argc, argv, "--stride", "1"));
    const double maxsecs = atof(aval(argc, argv, "--maxsecs", "1e9"));
    const std::string rdir = aval(argc, argv, "--replays", "replays");
    bool thorough = false;
    for (int i = 1; i < argc; i++) if (!strcmp(argv[i], "--thorough")) thorough = true;
    MEDDLY::initialize();
    const char* one = aval(argc, argv, "--one", nullptr);
    if (one) {
        // replay: --one <runseed> --faults 0|1 [--ops n]
        MMResult R; std::string cfg;
        mmRun(strtoull(one, nullptr, 10), thorough, atoi(aval(argc, argv, "--faults", "0")) != 0, R, cfg,
            -1, atol(aval(argc, argv, "--ops", "-1")));
        if (R.ok) { printf("REPLAY clean %s\n", cfg.c_str()); return 0; }
        printf("REPLAY failure class=I7:mm\n  %s\n", R.detail.c_str());
        return 1;
    }
    auto t0 = std::chrono::steady_clock::now();
    for (long i = start; i < count; i += stride) {
        const uint64_t rs = mix64(mix64(seed, 0xC18), uint64_t(i));
        const bool faults = (i % 3) == 2;
        MMResult R; std::string cfg;
        printf("{\"begin\":%ld,\"runseed\":\"%llu\",\"faults\":%d}\n", i, (unsigned long long) rs, faults ? 1 : 0);
        fflush(stdout);
        mmRun(rs, thorough, faults, R, cfg);
        std::string replay;
        if (!R.ok) {
            // minimise the operation count (prefix of the same schedule)
            MMResult R2; std::string c2;
            mmRun(rs, thorough, faults, R2, c2);
            if (R2.ok || R2.detail != R.detail) { printf("{\"run\":%ld,\"nondeterministic\":true}\n", i); return 2; }
            long ops = R.requests + R.recycles;
            char nm[256];
            snprintf(nm, sizeof nm, "%s/C18_%llu_%ld.mm", rdir.c_str(), (unsigned long long) seed, i);
            FILE* f = fopen(nm, "w");
            if (f) {
                fprintf(f, "MMREPLAY 1\nrunseed %llu\nfaults %d\nthorough %d\nops %ld\nexpect %s\n",
                    (unsigned long long) rs, faults ? 1 : 0, thorough ? 1 : 0, ops, R.detail.c_str());
                fclose(f);
            }
            replay = nm;
        }
        std::string d;
        for (char ch : R.detail) { if (ch == '"' || ch == '\\') d += '\\'; d += ch; }
        printf("{\"run\":%ld,\"seed\":%llu,\"prop\":\"C18\",\"ok\":%s,\"abandoned\":false,\"steps\":%ld,\"nsteps\":%ld,"
            "\"hash\":\"%016llx\",\"secs\":0,\"cfg\":\"%s\"",
            i, (unsigned long long) rs, R.ok ? "true" : "false", R.requests + R.recycles, R.requests + R.recycles,
            (unsigned long long) mix64(uint64_t(R.requests), uint64_t(R.recycles) * 31 + R.peak), cfg.c_str());
        if (!R.ok) printf(",\"cls\":\"I7:mm\",\"detail\":\"%s\",\"step\":%ld,\"replay\":\"%s\"", d.c_str(), R.requests + R.recycles, replay.c_str());
        printf(",\"fired\":{\"alloc_failure\":%ld,\"requests\":%ld,\"recycles\":%ld,\"scans\":%ld},\"ops\":{\"%s\":1},\"probes\":{}}\n",
            R.failures, R.requests, R.recycles, R.scans, cfg.substr(0, cfg.find(' ')).c_str());
        fflush(stdout);
        double el = std::chrono::duration<double>(std::chrono::steady_clock::now() - t0).count();
        if (el > maxsecs) break;
    }
    printf("{\"done\":true}\n");
    return 0;
}
