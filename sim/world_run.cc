// Step dispatcher and the run loop.
#include "world.h"

#include <sstream>

using namespace MEDDLY;

namespace sim {

void World::exec(const Step &s)
{
    cur_drop = s.drop;
    cur_dropk = s.dropk;
    hit_index = 0;
    desc.str("");
    const size_t obs_before = obs.size();
    cur = &s;
    cur_uid = (s.uid >= 0) ? s.uid : cur_step;
    made_in_step = 0;
    pick_no = fpick_no = 0;
    for (int i = 0; i < 6; i++) cur_bind[i] = 0;
    for (int i = 0; i < 4; i++) cur_fbind[i] = 0;
    if (tracing) { fprintf(stderr, "#%d c%d %s ...\n", cur_step, s.client, s.op.c_str()); fflush(stderr); }
    g_sim_clock++;
    const std::string &op = s.op;
    stats.opcount[op]++;
    if (cold_cache && lib_running) {
        if (!compute_table::removeAllFromMonolithic()) {
            for (ForRT &F : forests) if (F.alive) F.f->removeAllComputeTableEntries();
        }
    }
    if (!lib_running && op != "restart") { note(OC_SKIP); return; }
    if      (op == "mkconst")   opMkConst(s);
    else if (op == "mkvar")     opMkVar(s);
    else if (op == "mkmt")      opMkMinterm(s);
    else if (op == "mkcollmax") opMkColl(s, true);
    else if (op == "mkcollmin") opMkColl(s, false);
    else if (op == "mkgraph")   opMkGraph(s);
    else if (op == "bin")       opBinary(s);
    else if (op == "compl")     opComplement(s);
    else if (op == "copy")      opCopy(s);
    else if (op == "copyedge")  opCopyEdge(s);
    else if (op == "assign")    opAssign(s);
    else if (op == "release")   opRelease(s);
    else if (op == "drain")     opDrain(s);
    else if (op == "masscopy")  opMassCopy(s);
    else if (op == "hoard")     opHoard(s);
    else if (op == "unhoard")   opUnhoard(s);
    else if (op == "detach")    opDetachAttach(s);
    else if (op == "purge")     opPurge(s);
    else if (op == "rebuild")   opRebuild(s);
    else if (op == "counts")    opCounts(s);
    else if (op == "card")      opCardinality(s);
    else if (op == "iter")      opIterate(s);
    else if (op == "iteropen")  opIterOpen(s);
    else if (op == "iterstep")  opIterStep(s);
    else if (op == "unary")     opUnary(s);
    else if (op == "range")     opRange(s);
    else if (op == "cross")     opCross(s);
    else if (op == "image")     opImage(s);
    else if (op == "vmmult")    opVMMult(s);
    else if (op == "reach")     opReach(s);
    else if (op == "satpart")   opSatPart(s);
    else if (op == "reorder")   opReorder(s);
    else if (op == "io")        opIO(s);
    else if (op == "ioread")    opIORead(s);
    else if (op == "index")     opIndexSet(s);
    else if (op == "bigcard")   opBigCard(s);
    else if (op == "misuse")    opMisuse(s);
    else if (op == "killforest") opKillForest(s);
    else if (op == "killdomain") opKillDomain(s);
    else if (op == "newforest") opNewForest(s);
    else if (op == "restart")   opRestart(s);
    else { note(OC_SKIP); }
    cur_drop = 0;
    cur_dropk = 0;
    if (hit_index) stats.fired["ct_hits_seen"] += long(hit_index);
    hits_per_step.push_back(hit_index);
    {
        std::ostringstream o;
        static const char* ocn[] = { "ok", "skip", "declined", "error", "no-oracle", "abandon" };
        o << "#" << cur_step << " c" << s.client << " " << op;
        if (obs.size() > obs_before) o << " [" << ocn[obs.back().outcome % 6] << "]";
        if (s.drop) o << " drop=" << s.drop << "/1000";
        if (s.dropk) o << " dropk=" << s.dropk;
        o << " " << desc.str();
        story.push_back(o.str());
        Step r = s;
        r.uid = cur_uid;
        for (int i = 0; i < 6; i++) r.bind[i] = cur_bind[i];
        for (int i = 0; i < 4; i++) r.fbind[i] = cur_fbind[i];
        resolved.push_back(r);
        if (const char* ro = getenv("SIM_RESOLVE_OUT")) {
            // the choices made so far, for the minimiser (rewritten after
            // every step so that a crashing run leaves it behind)
            Plan Q = plan;
            Q.steps = resolved;
            for (size_t i = resolved.size(); i < plan.steps.size(); i++) {
                Q.steps.push_back(plan.steps[i]);
                if (Q.steps.back().uid < 0) Q.steps.back().uid = int(i);
            }
            Q.expect_class.clear(); Q.story.clear();
            Q.write(ro);
        }
        if (tracing) { fprintf(stderr, "%s\n", o.str().c_str()); fflush(stderr); }
    }
}

bool World::run()
{
    g_world = this;
    g_sim_clock = 0;
    tracing = getenv("SIM_TRACE") != nullptr;
    startLibrary(plan.cfg);
    createDomains();
    forests.clear();
    forests.resize(plan.cfg.forests.size());
    for (size_t i = 0; i < plan.cfg.forests.size(); i++) {
        forests[i].spec = plan.cfg.forests[i];
        createForest(int(i));
    }
    for (size_t i = 0; i < plan.steps.size() && !failed() && !abandoned; i++) {
        cur_step = int(i);
        stats.steps++;
        try {
            exec(plan.steps[i]);
        }
        catch (MEDDLY::error &e) {
            std::ostringstream o;
            o << "step '" << plan.steps[i].op << "' let an unexpected library error escape: "
              << e.getName() << " (" << e.getFile() << ":" << e.getLine() << ")";
            failNow("X1", cur_family, o.str());
        }
        if (failed()) break;
        auditAfterStep(false);
        { const uint64_t as = abstractState(); eh.add(as); astates.insert(uint32_t(as ^ (as >> 32))); }
    }
    if (!failed() && !abandoned) {
        cur_step = int(plan.steps.size());
        try {
            finalAudit();
        }
        catch (MEDDLY::error &e) {
            failNow("X1", "final", std::string("final audit: library error ") + e.getName());
        }
    }
    // tear down: edges first or last, seed-chosen (C17)
    if (!failed()) {
        for (size_t i = edges.size(); i; ) dropEdge(--i);
    }
    stopLibraryAndEdges();
    g_world = nullptr;
    return !failed();
}

void World::stopLibraryAndEdges()
{
    // iterators must not outlive... they may (C17) but never advanced
    for (IterSlot* it : iters) {
        delete it->it; delete it->mask; delete it->root; delete it;
    }
    iters.clear();
    const bool edgesFirst = (plan.seed & 1) || failed();
    if (edgesFirst) {
        for (size_t i = edges.size(); i; ) dropEdge(--i);
    }
    stopLibrary();
    if (!edgesFirst) {
        // edges that outlive the library must be inert
        for (EdgeSlot* e : edges) {
            if (e->e->getForest() != nullptr) {
                failNow("I8", "lifecycle", "edge still reports a forest after cleanup()");
                break;
            }
        }
        for (size_t i = edges.size(); i; ) dropEdge(--i);
    }
    dropHoards();
    for (FileSlot* f : files) delete f;
    files.clear();
    std::string err;
    monitorReport(err);
}

}
