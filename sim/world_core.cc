#include "world.h"

#include <algorithm>
#include <cmath>
#include <cstring>
#include <map>
#include <sstream>

using namespace MEDDLY;

namespace sim {

World::World(const Plan &P) : plan(P)
{
}

World::~World()
{
}

// ----------------------------------------------------------------------
// Failure / observation recording
// ----------------------------------------------------------------------

void World::failNow(const std::string &monitor, const std::string &family,
        const std::string &detail)
{
    if (fail.set) return;
    fail.set = true;
    fail.monitor = monitor;
    fail.family = family;
    fail.detail = detail;
    if (!desc.str().empty()) fail.detail += " | step: " + desc.str();
    fail.step = cur_step;
}

void World::note(int outcome, uint64_t h, long nodes, long nedges, uint64_t shape)
{
    Obs o;
    o.outcome = outcome;
    o.h = h;
    o.nodes = nodes;
    o.edges = nedges;
    o.shape = shape;
    obs.push_back(o);
    eh.add(uint64_t(outcome));
    eh.add(h);
    eh.add(uint64_t(nodes));
    eh.add(uint64_t(nedges));
    eh.add(shape);
    switch (outcome) {
        case OC_SKIP:       stats.skipped++; break;
        case OC_DECLINED:   stats.declined++; break;
        case OC_ERROR:      stats.errors++; break;
        case OC_NOORACLE:   stats.nooracle++; break;
        default: break;
    }
}

// ----------------------------------------------------------------------
// Library life cycle
// ----------------------------------------------------------------------

void World::startLibrary(const Config &c)
{
    initializer_list* L = defaultInitializerList(nullptr);
    installSeams(c);
    switch (c.ct_stale) {
        case 0: ct_initializer::setStaleRemoval(staleRemovalOption::Aggressive); break;
        case 1: ct_initializer::setStaleRemoval(staleRemovalOption::Moderate); break;
        default: ct_initializer::setStaleRemoval(staleRemovalOption::Lazy); break;
    }
    ct_initializer::setMaxSize(c.ct_max);
    ct_initializer::setCompression(c.ct_compress
            ? compressionOption::TypeBased : compressionOption::None);
    ct_initializer::setHugeTables(c.ct_huge != 0);
    MEDDLY::initialize(L);
    lib_running = true;
    max_fid_seen = 0;
}

void World::stopLibrary()
{
    if (!lib_running) return;
    // iterators must go before their forests are destroyed only if we
    // intend to advance them; destroying them later is allowed (C17).
    MEDDLY::cleanup();
    lib_running = false;
    for (DomRT &D : doms) { D.alive = false; D.d = nullptr; }
    for (ForRT &F : forests) { F.alive = false; F.f = nullptr; }
    for (EdgeSlot* e : edges) e->forest = -1;
    for (Hoard* H : hoards) H->forest = -1;
    removeSeams();
}

void World::createDomains()
{
    doms.clear();
    for (const auto &sz : plan.cfg.doms) {
        DomRT D;
        D.m.sizes = sz;
        D.m.finish();
        D.d = domain::createBottomUp(sz.data(), unsigned(sz.size()));
        D.alive = true;
        doms.push_back(D);
    }
}

static policies makePolicies(const ForSpec &s, bool monitor)
{
    policies p(s.rel != 0);
    switch (s.red) {
        case 0: p.setFullyReduced(); break;
        case 1: p.setQuasiReduced(); break;
        default: p.setIdentityReduced(); break;
    }
    switch (s.storage) {
        case 1: p.setFullStorage(); break;
        case 2: p.setSparseStorage(); break;
        default: p.setFullOrSparse(); break;
    }
    switch (s.del) {
        case 0: p.setNeverDelete(); break;
        case 1: p.setOptimistic(); break;
        default: p.setPessimistic(); break;
    }
    if (monitor) {
        p.nodemm = monitoredStyle(s.mm);
    } else {
        switch (s.mm) {
            case 0: p.nodemm = ORIGINAL_GRID; break;
            case 1: p.nodemm = ARRAY_PLUS_GRID; break;
            case 2: p.nodemm = MALLOC_MANAGER; break;
            default: p.nodemm = HEAP_MANAGER; break;
        }
    }
    p.reorder = policies::reordering_type(s.reorder);
    p.swap = s.swap ? policies::variable_swap_type::LEVEL
                    : policies::variable_swap_type::VAR;
    return p;
}

void World::createForest(int idx)
{
    ForRT &F = forests[idx];
    const ForSpec &s = F.spec;
    DomRT &D = doms[s.dom];
    if (!D.alive) return;
    policies p = makePolicies(s, plan.cfg.monitor_mm != 0);
    range_type rt;
    edge_labeling el;
    switch (FKind(s.kind)) {
        case FK_MTB: rt = range_type::BOOLEAN; el = edge_labeling::MULTI_TERMINAL; break;
        case FK_MTI: rt = range_type::INTEGER; el = edge_labeling::MULTI_TERMINAL; break;
        case FK_MTR: rt = range_type::REAL;    el = edge_labeling::MULTI_TERMINAL; break;
        case FK_EVP: rt = range_type::INTEGER; el = edge_labeling::EVPLUS; break;
        case FK_IDX: rt = range_type::INTEGER; el = edge_labeling::INDEX_SET; break;
        default:     rt = range_type::REAL;    el = edge_labeling::EVTIMES; break;
    }
    try {
        F.f = forest::create(D.d, s.rel != 0, rt, el, p);
    }
    catch (MEDDLY::error &e) {
        // combination of kind / reduction rule not offered
        F.f = nullptr;
        F.alive = false;
        stats.fired["forest_kind_not_offered"]++;
        return;
    }
    if (!F.f) { F.alive = false; return; }
    F.alive = true;
    F.errored = false;
    F.fid = F.f->FID();
    // I8: identifiers strictly increase within one initialisation
    if (F.fid <= max_fid_seen) {
        std::ostringstream o;
        o << "forest id " << F.fid << " not above earlier id " << max_fid_seen;
        failNow("I8", "lifecycle", o.str());
    }
    max_fid_seen = std::max(max_fid_seen, F.fid);
    const int n = D.m.nvars();
    F.lvl2var.assign(n + 1, 0);
    for (int k = 1; k <= n; k++) F.lvl2var[k] = k;
}

// I8: destroying a forest destroys the operations that mention it.  The
// registry and the operations' forest accessors are public; the dead forest's
// address is only compared, never dereferenced.
static bool opMentions(const void* dead, std::string &name)
{
    for (unsigned i = 1; i < operation::getOpListSize(); i++) {
        operation* op = operation::getOpWithID(i);
        if (!op) continue;
        bool hit = false;
        if (binary_operation* b = dynamic_cast<binary_operation*>(op)) {
            hit = (b->getOp1F() == dead || b->getOp2F() == dead || b->getResF() == dead);
        }
        if (hit) { name = op->getName() ? op->getName() : "?"; return true; }
    }
    return false;
}

void World::destroyForest(int idx)
{
    ForRT &F = forests[idx];
    if (!F.alive) return;
    unsigned fid = F.fid;
    const void* dead = F.f;
    forest::destroy(F.f);
    {
        std::string nm;
        if (opMentions(dead, nm)) {
            failNow("I8", "lifecycle", "operation '" + nm + "' that mentions the destroyed forest is still registered");
        }
    }
    F.alive = false;
    F.f = nullptr;
    for (EdgeSlot* e : edges) if (e->forest == idx) e->forest = -1;
    for (Hoard* H : hoards) if (H->forest == idx) H->forest = -1;
    if (forest::getForestWithID(fid) != nullptr) {
        failNow("I8", "lifecycle", "getForestWithID of a destroyed forest is not null");
    }
}

void World::destroyDomain(int idx)
{
    DomRT &D = doms[idx];
    if (!D.alive) return;
    std::vector<unsigned> fids;
    std::vector<const void*> deadF;
    for (size_t i = 0; i < forests.size(); i++) {
        ForRT &F = forests[i];
        if (F.alive && F.spec.dom == idx) {
            fids.push_back(F.fid);
            deadF.push_back(F.f);
            F.alive = false;
            F.f = nullptr;
            for (EdgeSlot* e : edges) if (e->forest == int(i)) e->forest = -1;
            for (Hoard* H : hoards) if (H->forest == int(i)) H->forest = -1;
        }
    }
    domain::destroy(D.d);
    D.alive = false;
    D.d = nullptr;
    for (unsigned fid : fids) {
        if (forest::getForestWithID(fid) != nullptr) {
            failNow("I8", "lifecycle", "forest of a destroyed domain still registered");
        }
    }
    for (const void* dead : deadF) {
        std::string nm;
        if (opMentions(dead, nm)) {
            failNow("I8", "lifecycle", "operation '" + nm + "' that mentions a forest of the destroyed domain is still registered");
        }
    }
}

// ----------------------------------------------------------------------
// Minterms, evaluation
// ----------------------------------------------------------------------

void World::fillMinterm(const ForRT &F, minterm &m, long from, long to) const
{
    const Dom &D = doms[F.spec.dom].m;
    const int n = D.nvars();
    long a = from, b = to;
    // decode per variable, then place at the variable's level
    int xf[16], xt[16];
    for (int v = 1; v <= n; v++) {
        xf[v] = int(a % D.sizes[v-1]); a /= D.sizes[v-1];
        if (F.spec.rel) { xt[v] = int(b % D.sizes[v-1]); b /= D.sizes[v-1]; }
    }
    for (int k = 1; k <= n; k++) {
        const int v = F.lvl2var[k];
        if (F.spec.rel) m.setVars(unsigned(k), xf[v], xt[v]);
        else            m.setVar(unsigned(k), xf[v]);
    }
}

Val World::fromRangeval(const rangeval &rv) const
{
    if (rv.isPlusInfinity()) {
        return Val::pinf(rv.isReal() ? Val::R : (rv.isBoolean() ? Val::B : Val::I));
    }
    if (rv.isBoolean()) return Val::b(bool(rv));
    if (rv.isInteger()) return Val::n(long(rv));
    return Val::r(double(rv));
}

rangeval World::toRangeval(FKind k, const Val &v) const
{
    if (v.inf) {
        return rangeval(range_special::PLUS_INFINITY,
                (rangeOf(k) == Val::R) ? range_type::REAL : range_type::INTEGER);
    }
    switch (v.t) {
        case Val::B: return rangeval(bool(v.i != 0));
        case Val::I: return rangeval(long(v.i));
        default:     return rangeval(double(v.d));
    }
}

bool World::libTable(const ForRT &F, const dd_edge &e, Table &out)
{
    const Dom &D = doms[F.spec.dom].m;
    out.rel = F.spec.rel != 0;
    out.N = D.N;
    const long total = out.rel ? D.N * D.N : D.N;
    out.v.resize(size_t(total));
    minterm m(F.f);
    rangeval rv;
    for (long i = 0; i < total; i++) {
        long from = out.rel ? i / D.N : i;
        long to   = out.rel ? i % D.N : 0;
        fillMinterm(F, m, from, to);
        e.evaluate(m, rv);
        out.v[size_t(i)] = fromRangeval(rv);
        stats.evals++;
    }
    return true;
}

bool World::checkEdge(EdgeSlot &s, const std::string &monitor,
        const std::string &family, const char* what)
{
    if (s.forest < 0) {
        // detached: inert, reports no forest, node 0
        if (s.e->getForest() != nullptr) {
            failNow("I8", "lifecycle", "detached edge still reports a forest");
            return false;
        }
        if (s.e->getNode() != 0) {
            failNow("I8", "lifecycle", "detached edge holds a non-zero node");
            return false;
        }
        return true;
    }
    ForRT &F = forests[s.forest];
    if (!F.alive) return true;
    if (s.e->getForest() != F.f) {
        failNow(monitor, family, std::string(what) + ": edge attached to the wrong forest");
        return false;
    }
    if (!s.oracle) return true;
    Table got;
    try {
        libTable(F, *s.e, got);
    }
    catch (MEDDLY::error &e) {
        if (getenv("SIM_DEBUG")) { FILE_output o(stderr); s.e->showGraph(o); }
        failNow(monitor, family, std::string(what) + ": evaluate threw " + e.getName());
        return false;
    }
    const Dom &D = doms[F.spec.dom].m;
    for (size_t i = 0; i < got.v.size(); i++) {
        const Val &x = got.v[i];
        const Val &y = s.tab.v[i];
        // EV* forests normalise by float division and multiplication: values are
        // compared with the tolerance the library itself uses for them
        bool ok = (y.inexact || F.kind() == FK_EVT) ? x.close(y) : (x.same(y) || (y.t == Val::R && x.close(y) && float(x.d) == float(y.d)));
        if (!ok) {
            std::ostringstream o;
            o << what << ": " << fkName(F.kind()) << (F.spec.rel ? " rel" : " set")
              << " red=" << F.spec.red << " value mismatch at point " << i;
            if (F.spec.rel) o << " (" << long(i) / D.N << "->" << long(i) % D.N << ")";
            o << ": library " << x.str() << ", model " << y.str();
            failNow(monitor, family, o.str());
            return false;
        }
    }
    return true;
}

// ----------------------------------------------------------------------
// Slots
// ----------------------------------------------------------------------

EdgeSlot* World::newEdge(int client, int forest)
{
    EdgeSlot* s = new EdgeSlot;
    s->client = client;
    s->forest = forest;
    s->e = new dd_edge(forest >= 0 ? forests[forest].f : nullptr);
    s->born = uint64_t(cur_step);
    s->id = freshEdgeId();
    edges.push_back(s);
    return s;
}

// Hash of the graph below an edge that does not depend on which handles the
// nodes happen to have: level, size and, per child slot, the edge value and
// the child's own hash (terminals by their encoded value).  Two forests that
// hold the same canonical structure for a function give the same hash
// whatever their storage, memory manager, deletion policy or cache history.
static uint64_t evBits(const edge_value &ev)
{
    if (ev.isLong()) return uint64_t(long(ev));
    if (ev.isInt()) return uint64_t(long(int(ev)));
    if (ev.isFloat()) { float x = float(ev); uint32_t b; memcpy(&b, &x, 4); return b; }
    if (ev.isDouble()) { double x = double(ev); uint64_t b; memcpy(&b, &x, 8); return b; }
    return 0x9e37;
}
static uint64_t shapeRec(forest* f, node_handle p, std::map<node_handle, uint64_t> &memo)
{
    if (p <= 0) return mix64(0x7e41, uint64_t(long(p)));
    auto it = memo.find(p);
    if (it != memo.end()) return it->second;
    unpacked_node* U = unpacked_node::newFromNode(f, p, FULL_ONLY);
    uint64_t h = mix64(uint64_t(long(U->getLevel())) + 77, U->getSize());
    const unsigned n = U->getSize();
    std::vector<node_handle> kids(n);
    std::vector<uint64_t> evs(n, 0);
    for (unsigned i = 0; i < n; i++) {
        kids[i] = U->down(i);
        if (!f->isMultiTerminal()) evs[i] = evBits(U->edgeval(i));
    }
    unpacked_node::Recycle(U);
    for (unsigned i = 0; i < n; i++) {
        h = mix64(h, evs[i]);
        h = mix64(h, shapeRec(f, kids[i], memo));
    }
    memo[p] = h;
    return h;
}
uint64_t World::shapeHash(const ForRT &F, const dd_edge &e)
{
    std::map<node_handle, uint64_t> memo;
    uint64_t h = shapeRec(F.f, e.getNode(), memo);
    if (!F.f->isMultiTerminal()) h = mix64(h, evBits(e.getEdgeValue()));
    return mix64(h, memo.size());
}

int World::freshEdgeId()
{
    // named after the creating step's uid: stable when other steps are deleted
    return (cur_uid + 1) * 8 + (made_in_step++ % 8);
}

size_t World::pick(const std::vector<size_t> &cands, uint32_t raw)
{
    size_t chosen = cands[raw % cands.size()];
    const int k = pick_no++;
    if (k < 6 && cur && cur->bind[k]) {
        for (size_t c : cands) if (edges[c]->id == cur->bind[k]) { chosen = c; break; }
    }
    if (k < 6) cur_bind[k] = edges[chosen]->id;
    return chosen;
}

size_t World::pickAny(uint32_t raw)
{
    std::vector<size_t> all(edges.size());
    for (size_t i = 0; i < all.size(); i++) all[i] = i;
    return pick(all, raw);
}

std::string World::fn(int fi) const
{
    if (fi < 0) return "F-";
    const ForRT &F = forests[size_t(fi)];
    std::ostringstream o;
    static const char* rn[] = { "fully", "quasi", "ident" };
    o << "F" << fi << "<" << fkName(F.kind()) << (F.spec.rel ? " rel " : " set ") << rn[F.spec.red % 3] << ">";
    return o.str();
}

std::string World::en(const EdgeSlot &e) const
{
    std::ostringstream o;
    o << "e" << e.id << "@F" << e.forest;
    return o.str();
}

void World::dropEdge(size_t idx)
{
    EdgeSlot* s = edges[idx];
    delete s->e;
    delete s;
    edges.erase(edges.begin() + long(idx));
}

std::vector<size_t> World::edgesWhere(
        const std::function<bool(const EdgeSlot&)> &pred) const
{
    std::vector<size_t> r;
    for (size_t i = 0; i < edges.size(); i++) {
        if (pred(*edges[i])) r.push_back(i);
    }
    return r;
}

int World::pickForest(uint32_t raw,
        const std::function<bool(const ForRT&)> &pred) const
{
    std::vector<int> c;
    for (size_t i = 0; i < forests.size(); i++) {
        if (forests[i].alive && pred(forests[i])) c.push_back(int(i));
    }
    if (c.empty()) return -1;
    int chosen = c[raw % c.size()];
    World* self = const_cast<World*>(this);
    const int k = self->fpick_no++;
    if (k < 4 && cur && cur->fbind[k]) {
        for (int x : c) if (x + 1 == cur->fbind[k]) { chosen = x; break; }
    }
    if (k < 4) self->cur_fbind[k] = chosen + 1;
    return chosen;
}

void World::markErrored(int f)
{
    if (f >= 0) forests[f].errored = true;
}

// Values for generated functions.  flavour: 0 ordinary small values,
// 1 "mostly default", 2 distance-like (EV+/MT int non-negative, some
// unreachable)
Val World::randomValue(Rng &R, FKind k, int flavour) const
{
    switch (k) {
        case FK_MTB:
            return Val::b(R.chance(flavour == 1 ? 1 : 1, flavour == 1 ? 4 : 2));
        case FK_MTI: {
            if (flavour == 4) { static const long sv[] = { 1, 1, 0, -1, 2, 1 }; return Val::n(sv[R.below(6)]); }
            if (flavour == 1 && R.chance(2, 3)) return Val::n(0);
            if (flavour == 2) {
                if (R.chance(1, 3)) return Val::n(-1);
                return Val::n(R.range(0, 6));
            }
            return Val::n(R.range(-8, 8));
        }
        case FK_MTR: {
            if (flavour == 4) { static const double sv[] = { 1.0, 1.0, 0.0, -1.0, 2.0, 0.5 }; return Val::r(sv[R.below(6)]); }
            if (flavour == 1 && R.chance(2, 3)) return Val::r(0.0);
            return Val::r(double(R.range(-64, 64)) / 4.0);
        }
        case FK_EVP: case FK_IDX: {
            if (flavour == 1 && R.chance(2, 3)) return Val::pinf(Val::I);
            if (R.chance(1, 4)) return Val::pinf(Val::I);
            if (flavour == 4) { static const long sv[] = { 0, 0, 1, 1, 2, 0 }; if (R.chance(1, 5)) return Val::pinf(Val::I); return Val::n(sv[R.below(6)]); }
            if (flavour == 3) {
                // EV+ edge values are longs: values around and beyond the
                // 32-bit boundaries (stored in 4-byte node slots pairwise)
                static const long wide[] = { (1L << 31), (1L << 31) + 3, 3000000000L, (1L << 32) - 1,
                                             (1L << 32), 3L << 32, 6L << 30, (1L << 31) - 1, 5, 0,
                                             (1L << 33), 5L << 32 };
                return Val::n(wide[R.below(12)]);
            }
            return Val::n(R.range(0, 12));
        }
        default: {  // EV*: powers of two (exact under float products)
            if (flavour == 1 && R.chance(2, 3)) return Val::r(0.0);
            if (R.chance(1, 4)) return Val::r(0.0);
            static const double pw[] = { 0.25, 0.5, 1.0, 2.0, 4.0, 8.0 };
            double x = pw[R.below(6)];
            if (R.chance(1, 4)) x = -x;
            return Val::r(x);
        }
    }
}

// ----------------------------------------------------------------------
// Fault decisions (F1)
// ----------------------------------------------------------------------

bool World::dropDecision()
{
    ++hit_index;
    if (cur_dropk) {
        if (hit_index == cur_dropk) { stats.hits_dropped++; return true; }
        return false;
    }
    if (!cur_drop) return false;
    uint64_t h = mix64(mix64(plan.cfg.fault_seed, uint64_t(cur_step)), hit_index);
    if ((h % 1000) < cur_drop) { stats.hits_dropped++; return true; }
    return false;
}

// ----------------------------------------------------------------------
// Abstract state fingerprint
// ----------------------------------------------------------------------

static unsigned bucket(long x)
{
    unsigned b = 0;
    while (x > 0) { b++; x >>= 1; }
    return b;
}

uint64_t World::abstractState() const
{
    uint64_t h = 17;
    for (const ForRT &F : forests) {
        if (!F.alive) { h = mix64(h, 1); continue; }
        h = mix64(h, bucket(F.f->getCurrentNumNodes()));
        h = mix64(h, bucket(F.f->getLastNode()));
        long cnt = 0;
        for (const EdgeSlot* e : edges) if (e->forest >= 0 && &forests[e->forest] == &F) cnt++;
        h = mix64(h, bucket(cnt));
    }
    return h;
}

}
