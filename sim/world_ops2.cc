// Step handlers, part 2: counting, iteration, unary maps, range queries,
// cross product, images, vector-matrix products, reachability, partitioned
// saturation, reordering, index sets.
#include "world.h"

#include <gmp.h>
#include <algorithm>
#include <cmath>
#include <deque>
#include <set>
#include <sstream>

using namespace MEDDLY;

namespace sim {

bool World::sameOrder(int fa, int fb) const
{
    return forests[fa].lvl2var == forests[fb].lvl2var;
}

// lexicographic key of a point under forest F's level order
static std::vector<int> lexKey(const ForRT &F, const Dom &D, long from, long to)
{
    const int n = D.nvars();
    std::vector<int> key;
    for (int k = n; k >= 1; k--) {
        const int v = F.lvl2var[k];
        key.push_back(int((from / D.stride[v-1]) % D.sizes[v-1]));
        if (F.spec.rel) key.push_back(int((to / D.stride[v-1]) % D.sizes[v-1]));
    }
    return key;
}

// ----------------------------------------------------------------------
// counts: node and edge counts of an edge equal a recount by traversal
// ----------------------------------------------------------------------
void World::opCounts(const Step &s)
{
    cur_family = "count";
    std::vector<size_t> ca = edgesWhere([&](const EdgeSlot &e) {
        return e.forest >= 0 && forests[e.forest].alive;
    });
    if (ca.empty()) { note(OC_SKIP); return; }
    EdgeSlot &A = *edges[pick(ca, s.a[0])];
    ForRT &F = forests[A.forest];
    forest* f = F.f;
    std::set<node_handle> seen;
    std::vector<node_handle> st;
    unsigned long nedges_nz = 0, nedges_all = 0;
    if (A.e->getNode() > 0) { st.push_back(A.e->getNode()); seen.insert(A.e->getNode()); }
    while (!st.empty()) {
        node_handle p = st.back(); st.pop_back();
        unpacked_node* U = unpacked_node::newFromNode(f, p, FULL_ONLY);
        for (unsigned i = 0; i < U->getSize(); i++) {
            node_handle d = U->down(i);
            nedges_all++;
            if (f->isMultiTerminal() ? (d != f->getTransparentNode()) : !f->isTransparentEdge(U->edgeval(i), d)) nedges_nz++;
            if (d > 0 && seen.insert(d).second) st.push_back(d);
        }
        unpacked_node::Recycle(U);
    }
    const unsigned long nc = A.e->getNodeCount();
    if (nc != seen.size()) {
        std::ostringstream o;
        o << "getNodeCount returns " << nc << ", " << seen.size() << " distinct nodes are reachable";
        failNow("N1", cur_family, o.str());
        return;
    }
    const unsigned long ec = A.e->getEdgeCount(false);
    const unsigned long ecz = A.e->getEdgeCount(true);
    if (ec != nedges_nz || ecz != nedges_all) {
        std::ostringstream o;
        o << "getEdgeCount returns " << ec << "/" << ecz << " (without/with zero edges), traversal finds "
          << nedges_nz << "/" << nedges_all;
        failNow("N1", cur_family, o.str());
        return;
    }
    note(OC_OK, mix64(nc, ec), long(nc), long(ec));
}

// ----------------------------------------------------------------------
// card: cardinality in long / double / mpz
// ----------------------------------------------------------------------
void World::opCardinality(const Step &s)
{
    cur_family = "count";
    std::vector<size_t> ca = edgesWhere([&](const EdgeSlot &e) {
        if (e.forest < 0 || !forests[e.forest].alive || !e.oracle) return false;
        FKind k = forests[e.forest].kind();
        return k == FK_MTB || k == FK_MTI || k == FK_EVP || k == FK_IDX || k == FK_MTR;
    });
    if (ca.empty()) { note(OC_SKIP); return; }
    EdgeSlot &A = *edges[pick(ca, s.a[0])];
    ForRT &F = forests[A.forest];
    const long expect = A.tab.countNonDefault(defaultOf(F.kind()));
    desc << "CARDINALITY(" << en(A) << ") expect " << expect;
    if (tracing) { fprintf(stderr, "   doing: %s\n", desc.str().c_str()); fflush(stderr); }
    long cl = -1; double cd = -1; long cz = -1;
    try {
        apply(CARDINALITY, *A.e, cl);
        apply(CARDINALITY, *A.e, cd);
        mpz_t z; mpz_init(z);
        apply(CARDINALITY, *A.e, z);
        cz = mpz_get_si(z);
        mpz_clear(z);
    }
    catch (MEDDLY::error &e) {
        if (e.getCode() == error::TYPE_MISMATCH || e.getCode() == error::NOT_IMPLEMENTED) {
            note(OC_DECLINED, uint64_t(e.getCode())); return;
        }
        failNow("O2", cur_family, std::string("CARDINALITY threw ") + e.getName());
        return;
    }
    if (cl != expect || cd != double(expect) || cz != expect) {
        std::ostringstream o;
        o << "CARDINALITY of a " << fkName(F.kind()) << (F.spec.rel ? " rel" : " set")
          << " gives long=" << cl << " double=" << cd << " mpz=" << cz
          << ", the function has " << expect << " non-default points";
        failNow("N2", cur_family, o.str());
        return;
    }
    stats.opcount["card_ok"]++;
    note(OC_OK, uint64_t(expect));
}

// ----------------------------------------------------------------------
// iteration
// ----------------------------------------------------------------------
static void expectedVisits(const ForRT &F, const Dom &D, const Table &T,
        const SymMask* mask, std::vector<IterSlot::Item> &out)
{
    const Val dfl = defaultOf(F.kind());
    std::vector<std::pair<std::vector<int>, IterSlot::Item>> items;
    for (size_t i = 0; i < T.v.size(); i++) {
        if (T.v[i].same(dfl)) continue;
        long from = T.rel ? long(i) / D.N : long(i);
        long to = T.rel ? long(i) % D.N : 0;
        if (mask) {
            bool ok = true;
            for (int v = 1; v <= D.nvars() && ok; v++) {
                int x = int((from / D.stride[v-1]) % D.sizes[v-1]);
                if (mask->from[v] >= 0 && mask->from[v] != x) ok = false;
                if (T.rel) {
                    int y = int((to / D.stride[v-1]) % D.sizes[v-1]);
                    if (mask->to[v] >= 0 && mask->to[v] != y) ok = false;
                    if (mask->to[v] == -2 && y != x) ok = false;
                }
            }
            if (!ok) continue;
        }
        IterSlot::Item it; it.from = from; it.to = to; it.v = T.v[i];
        items.push_back(std::make_pair(lexKey(F, D, from, to), it));
    }
    std::sort(items.begin(), items.end(),
        [](const std::pair<std::vector<int>, IterSlot::Item> &a,
           const std::pair<std::vector<int>, IterSlot::Item> &b) { return a.first < b.first; });
    out.clear();
    for (auto &p : items) out.push_back(p.second);
}

static void genMask(Rng &R, const Dom &D, bool rel, SymMask &m)
{
    const int n = D.nvars();
    m.from.assign(n + 1, -1);
    m.to.assign(n + 1, -1);
    for (int v = 1; v <= n; v++) {
        if (R.chance(1, 3)) m.from[v] = int(R.below(D.sizes[v-1]));
        if (rel) {
            unsigned r = unsigned(R.below(6));
            if (r == 0) m.to[v] = -2;
            else if (r < 3) m.to[v] = int(R.below(D.sizes[v-1]));
        }
    }
}

static minterm* maskToMinterm(const ForRT &F, const SymMask &s)
{
    minterm* m = new minterm(F.f);
    const int n = int(F.lvl2var.size()) - 1;
    for (int k = 1; k <= n; k++) {
        const int v = F.lvl2var[k];
        int f = s.from[v] < 0 ? DONT_CARE : s.from[v];
        if (F.spec.rel) {
            int t = (s.to[v] == -2) ? DONT_CHANGE : (s.to[v] < 0 ? DONT_CARE : s.to[v]);
            m->setVars(unsigned(k), f, t);
        } else m->setVar(unsigned(k), f);
    }
    return m;
}

bool World::checkVisit(const ForRT &F, const minterm &m, const IterSlot::Item &want,
        size_t pos)
{
    const Dom &D = doms[F.spec.dom].m;
    const int n = D.nvars();
    long from = 0, to = 0;
    for (int k = 1; k <= n; k++) {
        const int v = F.lvl2var[k];
        int x = m.from(unsigned(k));
        if (x < 0 || x >= D.sizes[v-1]) {
            failNow("T1", cur_family, "iterator reports an unassigned or out-of-range variable");
            return false;
        }
        from += x * D.stride[v-1];
        if (F.spec.rel) {
            int y = m.to(unsigned(k));
            if (y < 0 || y >= D.sizes[v-1]) {
                failNow("T1", cur_family, "iterator reports an unassigned or out-of-range primed variable");
                return false;
            }
            to += y * D.stride[v-1];
        }
    }
    Val got = fromRangeval(m.getValue());
    if (from != want.from || to != want.to || !(want.v.inexact ? got.close(want.v) : got.close(want.v))) {
        std::ostringstream o;
        o << "iterator visit #" << pos << " in " << fkName(F.kind()) << (F.spec.rel ? " rel" : " set")
          << ": got (" << from << "->" << to << ")=" << got.str() << ", expected ("
          << want.from << "->" << want.to << ")=" << want.v.str();
        failNow("T1", cur_family, o.str());
        return false;
    }
    return true;
}

// iter: full enumeration in one step.  a[0] slot, a[1]&1 use mask
void World::opIterate(const Step &s)
{
    cur_family = "iterate";
    std::vector<size_t> ca = edgesWhere([&](const EdgeSlot &e) {
        if (e.forest < 0 || !forests[e.forest].alive || !e.oracle) return false;
        return forests[e.forest].kind() != FK_EVT;
    });
    if (ca.empty()) { note(OC_SKIP); return; }
    EdgeSlot &A = *edges[pick(ca, s.a[0])];
    ForRT &F = forests[A.forest];
    const Dom &D = doms[F.spec.dom].m;
    Rng R(s.seed);
    SymMask sm;
    const bool useMask = s.a[1] & 1;
    if (useMask) genMask(R, D, F.spec.rel, sm);
    desc << "iterate " << en(A) << " in " << fn(A.forest) << (useMask ? " masked" : "");
    if (tracing) { fprintf(stderr, "   doing: %s\n", desc.str().c_str()); fflush(stderr); }
    std::vector<IterSlot::Item> want;
    expectedVisits(F, D, A.tab, useMask ? &sm : nullptr, want);
    minterm* mask = useMask ? maskToMinterm(F, sm) : nullptr;
    size_t pos = 0;
    try {
        dd_edge::iterator it = A.e->begin(mask);
        for (; it; ++it) {
            if (pos >= want.size()) {
                std::ostringstream o;
                o << "iterator visits more than the " << want.size() << " expected assignments";
                failNow("T1", cur_family, o.str());
                break;
            }
            if (!checkVisit(F, *it, want[pos], pos)) break;
            pos++;
        }
        if (!failed() && !(it == A.e->end())) {
            failNow("T1", cur_family, "exhausted iterator does not equal end()");
        }
        if (!failed()) {
            // dereferencing an exhausted iterator raises INVALID_ITERATOR
            bool threw = false;
            try { const minterm &m = *it; (void) m; }
            catch (MEDDLY::error &e) { threw = (e.getCode() == error::INVALID_ITERATOR); }
            if (!threw) failNow("E1", "misuse", "dereferencing an exhausted iterator did not raise INVALID_ITERATOR");
        }
    }
    catch (MEDDLY::error &e) {
        delete mask;
        failNow("O2", cur_family, std::string("iteration threw ") + e.getName());
        return;
    }
    delete mask;
    if (failed()) return;
    if (pos != want.size()) {
        std::ostringstream o;
        o << "iterator stopped after " << pos << " of " << want.size() << " expected assignments ("
          << fkName(F.kind()) << (F.spec.rel ? " rel" : " set") << (useMask ? ", masked" : "") << ")";
        failNow("T1", cur_family, o.str());
        return;
    }
    stats.opcount[useMask ? "iter_masked_ok" : "iter_ok"]++;
    note(OC_OK, mix64(A.tab.hash(), pos));
}

// iteropen: open an iterator that stays open across steps
void World::opIterOpen(const Step &s)
{
    cur_family = "iterate";
    if (iters.size() >= 6) { note(OC_SKIP); return; }
    std::vector<size_t> ca = edgesWhere([&](const EdgeSlot &e) {
        if (e.forest < 0 || !forests[e.forest].alive || !e.oracle) return false;
        return forests[e.forest].kind() != FK_EVT;
    });
    if (ca.empty()) { note(OC_SKIP); return; }
    EdgeSlot &A = *edges[pick(ca, s.a[0])];
    ForRT &F = forests[A.forest];
    const Dom &D = doms[F.spec.dom].m;
    Rng R(s.seed);
    IterSlot* I = new IterSlot;
    I->client = s.client;
    I->forest = A.forest;
    I->root = new dd_edge(*A.e);
    SymMask sm;
    const bool useMask = s.a[1] & 1;
    if (useMask) { genMask(R, D, F.spec.rel, sm); I->mask = maskToMinterm(F, sm); }
    expectedVisits(F, D, A.tab, useMask ? &sm : nullptr, I->expect);
    I->order = F.lvl2var;
    I->it = new dd_edge::iterator(*I->root, I->mask);
    iters.push_back(I);
    stats.fired["iterator_held_across_steps"]++;
    note(OC_OK);
}

// iterstep: advance an open iterator a[1] times; close when exhausted
void World::opIterStep(const Step &s)
{
    cur_family = "iterate";
    if (iters.empty()) { note(OC_SKIP); return; }
    const size_t idx = s.a[0] % iters.size();
    IterSlot* I = iters[idx];
    bool usable = I->forest >= 0 && forests[I->forest].alive && forests[I->forest].lvl2var == I->order;
    bool closeit = !usable || (s.a[2] % 5 == 0);
    if (usable) {
        ForRT &F = forests[I->forest];
        unsigned n = 1 + s.a[1] % 8;
        try {
            while (n-- && *I->it) {
                if (I->pos >= I->expect.size()) { failNow("T1", cur_family, "held iterator visits too many assignments"); break; }
                if (!checkVisit(F, **I->it, I->expect[I->pos], I->pos)) break;
                I->pos++;
                ++(*I->it);
            }
        }
        catch (MEDDLY::error &e) {
            failNow("O2", cur_family, std::string("held iterator threw ") + e.getName());
        }
        if (failed()) return;
        if (!*I->it) {
            if (I->pos != I->expect.size()) {
                std::ostringstream o;
                o << "held iterator ended after " << I->pos << " of " << I->expect.size() << " assignments";
                failNow("T1", cur_family, o.str());
                return;
            }
            closeit = true;
        }
    }
    if (closeit) {
        delete I->it; delete I->mask; delete I->root; delete I;
        iters.erase(iters.begin() + long(idx));
    }
    note(OC_OK);
}

// ----------------------------------------------------------------------
// unary maps: DIST_INC and user-defined maps.  a[0] which, a[1] operand,
// a[2] result forest, a[3]&1 same forest
// ----------------------------------------------------------------------
static void uAbs(const rangeval &x, rangeval &y)
{
    if (x.isPlusInfinity()) { y = x; return; }
    if (x.isInteger()) { long L = x; y = (L < 0) ? -L : L; }
    else { double d = x; y = (d < 0) ? -d : d; }
}
static void uTwicePlus1(const rangeval &x, rangeval &y)
{
    if (x.isPlusInfinity()) { y = x; return; }
    if (x.isInteger()) { long L = x; y = 2*L + 1; }
    else { double d = x; y = 2*d + 1; }
}
static void uIsOdd(const rangeval &x, rangeval &y)
{
    if (x.isPlusInfinity()) { y = false; return; }
    if (x.isInteger()) { long L = x; y = (L % 2 != 0); }
    else { double d = x; y = (d != std::floor(d)); }
}
static user_unary_factory& uuf(unsigned w)
{
    static user_unary_factory A("simAbs", uAbs);
    static user_unary_factory B("simTwicePlus1", uTwicePlus1);
    static user_unary_factory C("simIsOdd", uIsOdd);
    switch (w % 3) { case 0: return A; case 1: return B; default: return C; }
}

void World::opUnary(const Step &s)
{
    cur_family = "arith";
    const unsigned which = s.a[0] % 4;     // 0 DIST_INC, 1..3 user
    std::vector<size_t> ca = edgesWhere([&](const EdgeSlot &e) {
        if (e.forest < 0 || !forests[e.forest].alive) return false;
        FKind k = forests[e.forest].kind();
        // KF-C05-1: DIST_INC of an identity-reduced relation (probe plans only)
        if (which == 0 && forests[e.forest].spec.rel && forests[e.forest].spec.red == 2 && s.a[5] != 999) return false;
        if (which == 0) return k == FK_MTI || k == FK_EVP;
        return k == FK_MTI || k == FK_MTR || k == FK_EVP;
    });
    if (ca.empty()) { note(OC_SKIP); return; }
    EdgeSlot &A = *edges[pick(ca, s.a[1])];
    ForRT &FA = forests[A.forest];
    int ri;
    if (which == 3) {
        ri = pickForest(s.a[2], [&](const ForRT &F) {
            return F.spec.dom == FA.spec.dom && F.spec.rel == FA.spec.rel && F.kind() == FK_MTB;
        });
    } else if (s.a[3] & 1) ri = A.forest;
    else ri = pickForest(s.a[2], [&](const ForRT &F) {
        return F.spec.dom == FA.spec.dom && F.spec.rel == FA.spec.rel && F.kind() == FA.kind();
    });
    if (ri < 0 || !sameOrder(A.forest, ri)) { note(OC_SKIP); return; }
    ForRT &FR = forests[ri];
    EdgeSlot* res = newEdge(s.client, ri);
    { static const char* un[] = { "DIST_INC", "user:abs", "user:2x+1", "user:isOdd" };
      desc << en(*res) << " = " << un[which] << "(" << en(A) << " from " << fn(A.forest) << ") in " << fn(ri); }
    res->tab = A.tab;
    res->oracle = A.oracle;
    for (Val &x : res->tab.v) {
        if (!res->oracle) break;
        if (which == 0) {
            // DIST_INC: add one to every reachable distance
            if (x.inf) continue;
            if (FA.kind() == FK_MTI && x.i < 0) continue;
            x = Val::n(x.i + 1);
        } else {
            rangeval in = toRangeval(FA.kind(), x), out;
            switch (which) { case 1: uAbs(in, out); break; case 2: uTwicePlus1(in, out); break; default: uIsOdd(in, out); }
            bool inex = x.inexact;
            x = fromRangeval(out);
            x.inexact = inex;
            if (!kindHoldsValue(FR.kind(), x)) res->oracle = false;
        }
    }
    dd_edge a_copy(*A.e);
    const bool inplace = (ri == A.forest) && ((s.a[3] >> 3) % 5 == 0);
    if (inplace) { *res->e = *A.e; desc << " [in place]"; stats.fired["result_aliases_operand"]++; }
    try {
        const dd_edge &src = inplace ? *res->e : *A.e;
        if (which == 0) apply(DIST_INC, src, *res->e);
        else apply(uuf(which - 1), src, *res->e);
    }
    catch (MEDDLY::error &e) {
        markErrored(A.forest); markErrored(ri);
        dropEdge(edges.size() - 1);
        if (e.getCode() == error::TYPE_MISMATCH || e.getCode() == error::NOT_IMPLEMENTED) {
            note(OC_DECLINED, uint64_t(e.getCode())); return;
        }
        failNow("O2", cur_family, std::string("unary map threw ") + e.getName());
        return;
    }
    if (*A.e != a_copy) { failNow("O1", cur_family, "unary map changed its operand"); return; }
    stats.opcount[which == 0 ? "un:DIST_INC" : "un:USER"]++;
    finishResult(s, res, cur_family);
}

// range: MAX_RANGE / MIN_RANGE.  a[0] which, a[1] operand
void World::opRange(const Step &s)
{
    cur_family = "range";
    std::vector<size_t> ca = edgesWhere([&](const EdgeSlot &e) {
        if (e.forest < 0 || !forests[e.forest].alive || !e.oracle) return false;
        FKind k = forests[e.forest].kind();
        return k == FK_MTI || k == FK_MTR;
    });
    if (ca.empty()) { note(OC_SKIP); return; }
    EdgeSlot &A = *edges[pick(ca, s.a[1])];
    ForRT &F = forests[A.forest];
    const bool mx0 = (s.a[0] & 1);
    desc << "MAX_RANGE and MIN_RANGE of " << en(A) << ", each asked twice";
    if (tracing) { fprintf(stderr, "   doing: %s\n", desc.str().c_str()); fflush(stderr); }
    Val vmax = A.tab.v[0], vmin = A.tab.v[0];
    for (const Val &x : A.tab.v) {
        if (x.num() > vmax.num()) vmax = x;
        if (x.num() < vmin.num()) vmin = x;
    }
    // the second round of queries meets the entries the first one cached
    for (int round = 0; round < 4; round++) {
        const bool mx = ((round & 1) != 0) == mx0;
        const Val &best = mx ? vmax : vmin;
        Val got;
        try {
            if (F.kind() == FK_MTI) {
                long r = 0;
                if (mx) apply(MAX_RANGE, *A.e, r); else apply(MIN_RANGE, *A.e, r);
                got = Val::n(r);
            } else {
                double r = 0;
                if (mx) apply(MAX_RANGE, *A.e, r); else apply(MIN_RANGE, *A.e, r);
                got = Val::r(r);
            }
        }
        catch (MEDDLY::error &e) {
            if (e.getCode() == error::TYPE_MISMATCH || e.getCode() == error::NOT_IMPLEMENTED) {
                note(OC_DECLINED, uint64_t(e.getCode())); return;
            }
            failNow("O2", cur_family, std::string("range query threw ") + e.getName());
            return;
        }
        if (!got.close(best)) {
            std::ostringstream o;
            o << (mx ? "MAX_RANGE" : "MIN_RANGE") << " of a " << fkName(F.kind())
              << (F.spec.rel ? " rel" : " set") << " returns " << got.str() << (round >= 2 ? " when asked again" : "")
              << ", the function's " << (mx ? "largest" : "smallest") << " value is " << best.str();
            failNow("R1", cur_family, o.str());
            return;
        }
        stats.opcount[mx ? "range:MAX" : "range:MIN"]++;
    }
    note(OC_OK, mix64(vmax.hash(), vmin.hash()));
}

// ----------------------------------------------------------------------
// cross: a[0] set A, a[1] set B, a[2] result relation forest
// ----------------------------------------------------------------------
void World::opCross(const Step &s)
{
    cur_family = "setalg";
    auto isSet = [&](const EdgeSlot &e) {
        return e.forest >= 0 && forests[e.forest].alive && !forests[e.forest].spec.rel
            && forests[e.forest].kind() == FK_MTB;
    };
    std::vector<size_t> ca = edgesWhere(isSet);
    if (ca.empty()) { note(OC_SKIP); return; }
    EdgeSlot &A = *edges[pick(ca, s.a[0])];
    ForRT &FA = forests[A.forest];
    std::vector<size_t> cb = edgesWhere([&](const EdgeSlot &e) {
        return isSet(e) && forests[e.forest].spec.dom == FA.spec.dom;
    });
    EdgeSlot &B = *edges[pick(cb, s.a[1])];
    int ri = pickForest(s.a[2], [&](const ForRT &F) {
        return F.spec.dom == FA.spec.dom && F.spec.rel && F.kind() == FK_MTB;
    });
    if (ri < 0 || !sameOrder(A.forest, B.forest) || !sameOrder(A.forest, ri)) { note(OC_SKIP); return; }
    const Dom &D = doms[FA.spec.dom].m;
    EdgeSlot* res = newEdge(s.client, ri);
    desc << en(*res) << " = CROSS(" << en(A) << ", " << en(B) << ") in " << fn(ri);
    if (tracing) { fprintf(stderr, "   doing: %s\n", desc.str().c_str()); fflush(stderr); }
    res->oracle = A.oracle && B.oracle;
    res->tab = Table::constant(D, true, Val::b(false));
    for (long x = 0; x < D.N; x++) for (long y = 0; y < D.N; y++)
        res->tab.v[size_t(x * D.N + y)] = Val::b(A.tab.v[size_t(x)].i && B.tab.v[size_t(y)].i);
    dd_edge ac(*A.e), bc(*B.e);
    try {
        apply(CROSS, *A.e, *B.e, *res->e);
    }
    catch (MEDDLY::error &e) {
        markErrored(A.forest); markErrored(B.forest); markErrored(ri);
        dropEdge(edges.size() - 1);
        if (e.getCode() == error::TYPE_MISMATCH || e.getCode() == error::NOT_IMPLEMENTED) {
            note(OC_DECLINED, uint64_t(e.getCode())); return;
        }
        failNow("O2", cur_family, std::string("CROSS threw ") + e.getName());
        return;
    }
    if (*A.e != ac || *B.e != bc) { failNow("O1", cur_family, "CROSS changed an operand"); return; }
    stats.opcount["bin:CROSS"]++;
    finishResult(s, res, cur_family);
}

// ----------------------------------------------------------------------
// image: a[0]&1 forward, a[1] set/vector, a[2] relation, a[3] result
// forest, a[4]&1 result in operand's forest
// ----------------------------------------------------------------------
void World::opImage(const Step &s)
{
    cur_family = "image";
    const bool fwd = s.a[0] & 1;
    std::vector<size_t> ca = edgesWhere([&](const EdgeSlot &e) {
        if (e.forest < 0 || !forests[e.forest].alive || forests[e.forest].spec.rel) return false;
        FKind k = forests[e.forest].kind();
        return k == FK_MTB || k == FK_MTI || k == FK_EVP;
    });
    if (ca.empty()) { note(OC_SKIP); return; }
    EdgeSlot &A = *edges[pick(ca, s.a[1])];
    ForRT &FA = forests[A.forest];
    std::vector<size_t> cr = edgesWhere([&](const EdgeSlot &e) {
        return e.forest >= 0 && forests[e.forest].alive && forests[e.forest].spec.rel
            && forests[e.forest].kind() == FK_MTB && forests[e.forest].spec.dom == FA.spec.dom;
    });
    if (cr.empty()) { note(OC_SKIP); return; }
    EdgeSlot &Rl = *edges[pick(cr, s.a[2])];
    int ri = (s.a[4] & 1) ? A.forest : pickForest(s.a[3], [&](const ForRT &F) {
        return F.spec.dom == FA.spec.dom && !F.spec.rel && F.kind() == FA.kind();
    });
    if (ri < 0 || !sameOrder(A.forest, Rl.forest) || !sameOrder(A.forest, ri)) { note(OC_SKIP); return; }
    ForRT &FR = forests[ri];
    // integer MT distance needs a fully reduced result forest (documented)
    if (FA.kind() == FK_MTI && FR.spec.red != 0) { note(OC_SKIP); return; }
    // KF-C09-1: ... and crashes when the operand forest is quasi-reduced and
    // a distance-0 terminal meets a terminal of a fully-reduced relation above
    // the bottom level (probe plans only)
    if (FA.kind() == FK_MTI && FA.spec.red != 0 && s.a[5] != 999) { note(OC_SKIP); return; }
    const Dom &D = doms[FA.spec.dom].m;
    EdgeSlot* res = newEdge(s.client, ri);
    desc << en(*res) << " = " << (fwd ? "POST_IMAGE(" : "PRE_IMAGE(") << en(A) << ", " << en(Rl) << " in " << fn(Rl.forest) << ") into " << fn(ri);
    if (tracing) { fprintf(stderr, "   doing: %s\n", desc.str().c_str()); fflush(stderr); }
    res->oracle = A.oracle && Rl.oracle;
    const FKind k = FA.kind();
    Val unreach = (k == FK_MTB) ? Val::b(false) : (k == FK_EVP ? Val::pinf(Val::I) : Val::n(-1));
    res->tab = Table::constant(D, false, unreach);
    bool distOK = true;
    if (res->oracle) {
        for (long x = 0; x < D.N; x++) {
            const Val &ax = A.tab.v[size_t(x)];
            bool member = (k == FK_MTB) ? (ax.i != 0) : (k == FK_EVP ? !ax.inf : ax.i >= 0);
            if (!member) continue;
            for (long y = 0; y < D.N; y++) {
                const Val &r = fwd ? Rl.tab.v[size_t(x * D.N + y)] : Rl.tab.v[size_t(y * D.N + x)];
                if (!r.i) continue;
                Val &o = res->tab.v[size_t(y)];
                if (k == FK_MTB) o = Val::b(true);
                else {
                    long cand = ax.i + 1;
                    if (k == FK_EVP) { if (o.inf || cand < o.i) o = Val::n(cand); }
                    else if (o.i < 0 || cand < o.i) o = Val::n(cand);
                }
            }
        }
        // MT integer "unreachable": any negative value; only -1 inputs keep
        // the oracle exact
        if (k == FK_MTI) for (const Val &x : A.tab.v) if (x.i < -1) distOK = false;
    }
    if (!distOK) res->oracle = false;
    dd_edge ac(*A.e), rc(*Rl.e);
    const bool inplace = (ri == A.forest) && ((s.a[4] >> 3) % 5 == 0);
    if (inplace) { *res->e = *A.e; desc << " [in place]"; stats.fired["result_aliases_operand"]++; }
    try {
        const dd_edge &src = inplace ? *res->e : *A.e;
        if (fwd) apply(POST_IMAGE, src, *Rl.e, *res->e);
        else     apply(PRE_IMAGE, src, *Rl.e, *res->e);
    }
    catch (MEDDLY::error &e) {
        markErrored(A.forest); markErrored(Rl.forest); markErrored(ri);
        dropEdge(edges.size() - 1);
        if (e.getCode() == error::TYPE_MISMATCH || e.getCode() == error::NOT_IMPLEMENTED) {
            note(OC_DECLINED, uint64_t(e.getCode())); return;
        }
        failNow("O2", cur_family, std::string("image threw ") + e.getName());
        return;
    }
    if (*A.e != ac || *Rl.e != rc) { failNow("O1", cur_family, "image changed an operand"); return; }
    stats.opcount[std::string(fwd ? "POST_IMAGE:" : "PRE_IMAGE:") + fkName(k)]++;
    if (k == FK_MTI && res->oracle) {
        // compare with "negative = unreachable" equivalence
        Table got;
        libTable(FR, *res->e, got);
        for (size_t i = 0; i < got.v.size(); i++) {
            const Val &g = got.v[i], &m = res->tab.v[i];
            bool ok = (m.i < 0) ? (g.i < 0) : (g.i == m.i);
            if (!ok) {
                std::ostringstream o;
                o << (fwd ? "POST_IMAGE" : "PRE_IMAGE") << " MT integer distance at state " << i
                  << ": library " << g.str() << ", model " << m.str();
                failNow("I1", cur_family, o.str());
                return;
            }
        }
        res->tab = got;     // adopt the library's choice of negative value
    }
    finishResult(s, res, cur_family);
}

// ----------------------------------------------------------------------
// vmmult: a[0]&1 VM (else MV), a[1] vector, a[2] matrix, a[3] result
// ----------------------------------------------------------------------
void World::opVMMult(const Step &s)
{
    cur_family = "image";
    const bool vm = s.a[0] & 1;
    std::vector<size_t> ca = edgesWhere([&](const EdgeSlot &e) {
        if (e.forest < 0 || !forests[e.forest].alive || forests[e.forest].spec.rel) return false;
        FKind k = forests[e.forest].kind();
        return k == FK_MTI || k == FK_MTR;
    });
    if (ca.empty()) { note(OC_SKIP); return; }
    EdgeSlot &A = *edges[pick(ca, s.a[1])];
    ForRT &FA = forests[A.forest];
    std::vector<size_t> cr = edgesWhere([&](const EdgeSlot &e) {
        return e.forest >= 0 && forests[e.forest].alive && forests[e.forest].spec.rel
            && forests[e.forest].kind() == FA.kind() && forests[e.forest].spec.dom == FA.spec.dom;
    });
    if (cr.empty()) { note(OC_SKIP); return; }
    EdgeSlot &M = *edges[pick(cr, s.a[2])];
    int ri = (s.a[4] & 1) ? A.forest : pickForest(s.a[3], [&](const ForRT &F) {
        return F.spec.dom == FA.spec.dom && !F.spec.rel && F.kind() == FA.kind();
    });
    if (ri < 0 || !sameOrder(A.forest, M.forest) || !sameOrder(A.forest, ri)) { note(OC_SKIP); return; }
    const Dom &D = doms[FA.spec.dom].m;
    EdgeSlot* res = newEdge(s.client, ri);
    desc << en(*res) << " = " << (vm ? "VM_MULTIPLY(" : "MV_MULTIPLY(") << en(A) << ", " << en(M) << ") into " << fn(ri);
    if (tracing) { fprintf(stderr, "   doing: %s\n", desc.str().c_str()); fflush(stderr); }
    res->oracle = A.oracle && M.oracle;
    const bool real = FA.kind() == FK_MTR;
    res->tab = Table::constant(D, false, real ? Val::r(0.0) : Val::n(0));
    if (res->oracle) {
        for (long y = 0; y < D.N; y++) {
            double acc = 0; long iacc = 0; bool inex = false;
            for (long x = 0; x < D.N; x++) {
                const Val &a = A.tab.v[size_t(x)];
                const Val &m = vm ? M.tab.v[size_t(x * D.N + y)] : M.tab.v[size_t(y * D.N + x)];
                if (real) { acc += a.d * m.d; inex = inex || a.inexact || m.inexact; if (a.inexact || m.inexact) res->oracle = false; }
                else iacc += a.i * m.i;
            }
            if (real) {
                // sums of products of quarter-integers: exact only on a grid
                double g = acc * 16.0;
                res->tab.v[size_t(y)] = Val::r(acc, inex || g != std::floor(g) || std::fabs(acc) > 4096);
            } else {
                if (iacc >= (1L << 30) || iacc <= -(1L << 30)) res->oracle = false;
                res->tab.v[size_t(y)] = Val::n(iacc);
            }
        }
    }
    dd_edge ac(*A.e), mc(*M.e);
    try {
        if (vm) apply(VM_MULTIPLY, *A.e, *M.e, *res->e);
        else    apply(MV_MULTIPLY, *M.e, *A.e, *res->e);
    }
    catch (MEDDLY::error &e) {
        markErrored(A.forest); markErrored(M.forest); markErrored(ri);
        dropEdge(edges.size() - 1);
        if (e.getCode() == error::TYPE_MISMATCH || e.getCode() == error::NOT_IMPLEMENTED
            || e.getCode() == error::VALUE_OVERFLOW) {
            note(OC_DECLINED, uint64_t(e.getCode())); return;
        }
        failNow("O2", cur_family, std::string("vector-matrix product threw ") + e.getName());
        return;
    }
    if (*A.e != ac || *M.e != mc) { failNow("O1", cur_family, "vector-matrix product changed an operand"); return; }
    stats.opcount[vm ? "VM_MULTIPLY" : "MV_MULTIPLY"]++;
    finishResult(s, res, cur_family);
}

// ----------------------------------------------------------------------
// reach: a[0] algorithm mask, a[1]&1 forward, a[2] initial set,
// a[3] relation, a[4] result forest, a[5] flags (1: result in init forest;
// 999: allow the configurations listed as known findings)
// ----------------------------------------------------------------------
static void closure(const Table &init, const Table &R, bool fwd, long N, Table &out)
{
    std::vector<std::vector<int>> succ, pred;
    adjacency(R, succ, pred);
    out = init;
    std::deque<long> q;
    for (long x = 0; x < N; x++) if (init.v[size_t(x)].i) q.push_back(x);
    while (!q.empty()) {
        long x = q.front(); q.pop_front();
        for (int y : (fwd ? succ[size_t(x)] : pred[size_t(x)])) {
            if (!out.v[size_t(y)].i) { out.v[size_t(y)] = Val::b(true); q.push_back(y); }
        }
    }
}

// shortest distances from an initial distance function: d(t) = min over s of
// init(s) + (length of a shortest path s -> t); unreachable stays unreachable
static void distances(const Table &init, FKind k, const Table &R, bool fwd, long N, Table &out)
{
    std::vector<std::vector<int>> succ, pred;
    adjacency(R, succ, pred);
    const long INF = 1L << 60;
    std::vector<long> d(size_t(N), INF);
    for (long x = 0; x < N; x++) {
        const Val &v = init.v[size_t(x)];
        const bool member = (k == FK_EVP) ? !v.inf : (v.i >= 0);
        if (member) d[size_t(x)] = v.i;
    }
    // Bellman-Ford style relaxation (N is tiny)
    bool changed = true;
    while (changed) {
        changed = false;
        for (long x = 0; x < N; x++) {
            if (d[size_t(x)] >= INF) continue;
            for (int y : (fwd ? succ[size_t(x)] : pred[size_t(x)])) {
                if (d[size_t(x)] + 1 < d[size_t(y)]) { d[size_t(y)] = d[size_t(x)] + 1; changed = true; }
            }
        }
    }
    out = init;
    for (long x = 0; x < N; x++) {
        if (d[size_t(x)] >= INF) out.v[size_t(x)] = (k == FK_EVP) ? Val::pinf(Val::I) : Val::n(-1);
        else out.v[size_t(x)] = Val::n(d[size_t(x)]);
    }
}

void World::opReach(const Step &s)
{
    cur_family = "reach";
    const bool fwd = s.a[1] & 1;
    const bool allowKnown = (s.a[5] == 999);
    std::vector<size_t> ca = edgesWhere([&](const EdgeSlot &e) {
        if (e.forest < 0 || !forests[e.forest].alive || forests[e.forest].spec.rel || !e.oracle) return false;
        const FKind k = forests[e.forest].kind();
        // boolean sets; MT-integer distances (fully reduced, as the image
        // operation requires) and EV+ distances
        if (k == FK_MTI) return forests[e.forest].spec.red == 0;
        return k == FK_MTB || k == FK_EVP;
    });
    if (ca.empty()) { note(OC_SKIP); return; }
    EdgeSlot &A = *edges[pick(ca, s.a[2])];
    ForRT &FA = forests[A.forest];
    const FKind ak = FA.kind();
    std::vector<size_t> cr = edgesWhere([&](const EdgeSlot &e) {
        return e.forest >= 0 && forests[e.forest].alive && forests[e.forest].spec.rel
            && forests[e.forest].kind() == FK_MTB && forests[e.forest].spec.dom == FA.spec.dom && e.oracle;
    });
    if (cr.empty()) { note(OC_SKIP); return; }
    EdgeSlot &Rl = *edges[pick(cr, s.a[3])];
    int ri = ((s.a[5] & 1) && !allowKnown) ? A.forest : pickForest(s.a[4], [&](const ForRT &F) {
        if (ak == FK_MTI && F.spec.red != 0) return false;
        return F.spec.dom == FA.spec.dom && !F.spec.rel && F.kind() == ak;
    });
    if (ri < 0 || !sameOrder(A.forest, Rl.forest) || !sameOrder(A.forest, ri)) { note(OC_SKIP); return; }
    const Dom &D = doms[FA.spec.dom].m;
    Table want;
    if (ak == FK_MTB) closure(A.tab, Rl.tab, fwd, D.N, want);
    else {
        // distance functions: wide initial values would only test addition
        for (const Val &v : A.tab.v) if (!v.inf && (v.i > (1L << 20))) { note(OC_SKIP); return; }
        distances(A.tab, ak, Rl.tab, fwd, D.N, want);
    }
    unsigned algs = 1 + s.a[0] % 7;     // bit0 FS, bit1 NOFS, bit2 SATUR
    if (getenv("SIM_DEBUG") && ak == FK_EVP) {
        fprintf(stderr, "   EV+ reach %s N=%ld init:", fwd ? "fwd" : "bwd", D.N);
        for (long x = 0; x < D.N; x++) fprintf(stderr, " %s", A.tab.v[size_t(x)].str().c_str());
        fprintf(stderr, "\n   want:");
        for (long x = 0; x < D.N; x++) fprintf(stderr, " %s", want.v[size_t(x)].str().c_str());
        long ne = 0; for (const Val &v : Rl.tab.v) if (v.i) ne++;
        fprintf(stderr, "\n   relation edges: %ld\n", ne);
    }
    if (ak != FK_MTB) algs = 6;     // distances: breadth-first without frontier and saturation, always both (the frontier variant is boolean only)
    desc << "reach " << (fwd ? "fwd" : "bwd") << " algs=" << algs << " init " << en(A) << " rel " << en(Rl) << " in " << fn(Rl.forest) << " result " << fn(ri);
    if (tracing) { fprintf(stderr, "   doing: %s\n", desc.str().c_str()); fflush(stderr); }
    dd_edge ac(*A.e), rc(*Rl.e);
    EdgeSlot* res = nullptr;
    for (unsigned al = 0; al < 3; al++) {
        if (!(algs & (1u << al))) continue;
        // KF-C08-2/3: saturation over a relation forest that is not
        // identity-reduced (probe plans only)
        if (al == 2 && forests[Rl.forest].spec.red != 2 && !allowKnown) continue;
        int rf = ri;
        // KF-C08-1: breadth-first reachability with the initial set in a
        // forest other than the result forest (see known_findings.txt)
        if (al < 2 && !allowKnown) rf = A.forest;
        EdgeSlot* r = newEdge(s.client, rf);
        r->tab = want;
        try {
            switch (al) {
                case 0: apply(REACHABLE_TRAD_FS(fwd), *A.e, *Rl.e, *r->e); break;
                case 1: apply(REACHABLE_TRAD_NOFS(fwd), *A.e, *Rl.e, *r->e); break;
                default: apply(REACHABLE_SATUR(fwd), *A.e, *Rl.e, *r->e); break;
            }
        }
        catch (MEDDLY::error &e) {
            markErrored(A.forest); markErrored(Rl.forest); markErrored(rf);
            dropEdge(edges.size() - 1);
            if (e.getCode() == error::TYPE_MISMATCH || e.getCode() == error::NOT_IMPLEMENTED) {
                stats.declined++;
                continue;
            }
            std::ostringstream o;
            o << "reachability algorithm " << al << " threw " << e.getName();
            failNow("O2", cur_family, o.str());
            return;
        }
        if (*A.e != ac || *Rl.e != rc) { failNow("O1", cur_family, "reachability changed an operand"); return; }
        static const char* nm[] = { "REACH_TRAD_FS", "REACH_TRAD_NOFS", "REACH_SATUR" };
        stats.opcount[std::string(nm[al]) + (fwd ? ":fwd" : ":bwd") + (ak == FK_MTB ? "" : (ak == FK_EVP ? ":EV+dist" : ":MTdist"))]++;
        if (ak == FK_MTI) {
            // "negative = unreachable": any negative value stands for it
            Table got;
            libTable(forests[rf], *r->e, got);
            for (size_t i = 0; i < got.v.size(); i++) {
                const Val &g = got.v[i], &m = want.v[i];
                const bool ok = (m.i < 0) ? (g.i < 0) : (g.i == m.i);
                if (!ok) {
                    std::ostringstream o;
                    o << nm[al] << " MT integer distance at state " << i << ": library " << g.str() << ", model " << m.str();
                    failNow("I1", cur_family, o.str());
                    return;
                }
            }
            r->tab = got;
        }
        else if (!checkEdge(*r, "I1", cur_family, nm[al])) return;
        if (res && res->forest == r->forest && res->tab.same(r->tab) && *res->e != *r->e) {
            failNow("I2", cur_family, "two reachability algorithms return different edges for the same input");
            return;
        }
        res = r;
    }
    if (!res) { note(OC_DECLINED); return; }
    note(OC_OK, want.hash(), long(res->e->getNodeCount()));
}

// ----------------------------------------------------------------------
// satpart: saturation over a partitioned relation (C20).
// a[0] number of events, a[1] initial set, a[2] relation forest,
// a[3] result forest, a[4] 0: by events, 1..5: by levels with split
// option a[4]-1 (known finding; only used by the probe plan)
// ----------------------------------------------------------------------
void World::opSatPart(const Step &s)
{
    cur_family = "satpart";
    std::vector<size_t> ca = edgesWhere([&](const EdgeSlot &e) {
        // KF-C20-1: in a fully-reduced set forest events at a level skipped
        // by both the set and the firing event are not fired (probe plans only)
        if (e.forest >= 0 && forests[e.forest].spec.red == 0 && s.a[5] != 999) return false;
        return e.forest >= 0 && forests[e.forest].alive && !forests[e.forest].spec.rel
            && forests[e.forest].kind() == FK_MTB && e.oracle;
    });
    if (ca.empty()) { note(OC_SKIP); return; }
    EdgeSlot &A = *edges[pick(ca, s.a[1])];
    ForRT &FA = forests[A.forest];
    int rfi = pickForest(s.a[2], [&](const ForRT &F) {
        return F.spec.dom == FA.spec.dom && F.spec.rel && F.kind() == FK_MTB
            && (F.spec.red == 2 || F.spec.red == 1);
    });
    // the operation accepts input forest == output forest only ("for now,
    // anyway, inset and outset must be same forest", sat_pregen.cc); one call
    // in four asks for another forest and expects to be declined
    int ri = (s.a[3] % 4) ? A.forest : pickForest(s.a[3] / 4, [&](const ForRT &F) {
        return F.spec.dom == FA.spec.dom && !F.spec.rel && F.kind() == FK_MTB;
    });
    if (rfi < 0 || ri < 0 || !sameOrder(A.forest, rfi) || !sameOrder(A.forest, ri)) { note(OC_SKIP); return; }
    ForRT &FX = forests[rfi];
    const Dom &D = doms[FA.spec.dom].m;
    Rng R(s.seed);
    const unsigned nev = 1 + s.a[0] % 5;
    unsigned mode = s.a[4] % 6;
    // KF-C20-2: by levels with a splitting option over a QUASI-reduced relation
    // forest misses reachable states (probe plans only)
    if (mode >= 2 && FX.spec.red != 2 && s.a[5] != 999) mode = 0;
    desc << "partitioned saturation, " << nev << " events, mode " << mode << ", init " << en(A) << ", events in " << fn(rfi) << ", result " << fn(ri);
    if (tracing) { fprintf(stderr, "   doing: %s\n", desc.str().c_str()); fflush(stderr); }
    // events: each touches a random subset of variables (others unchanged)
    Table U = Table::constant(D, true, Val::b(false));
    std::vector<dd_edge> evs;
    try {
        for (unsigned e = 0; e < nev; e++) {
            const unsigned nm = 1 + unsigned(R.below(3));
            minterm_coll mc(nm, FX.f);
            std::vector<char> touch(size_t(D.nvars()) + 1, 0);
            bool any = false;
            for (int v = 1; v <= D.nvars(); v++) { touch[size_t(v)] = R.chance(1, 2); any = any || touch[size_t(v)]; }
            if (!any) touch[size_t(1 + R.below(D.nvars()))] = 1;
            for (unsigned j = 0; j < nm; j++) {
                SymMT sm;
                sm.from.assign(D.nvars() + 1, -1);
                sm.to.assign(D.nvars() + 1, -2);
                for (int v = 1; v <= D.nvars(); v++) {
                    if (!touch[size_t(v)]) continue;
                    sm.from[v] = int(R.below(D.sizes[v-1]));
                    sm.to[v] = R.chance(1, 5) ? -2 : int(R.below(D.sizes[v-1]));
                    // one touched variable in five is a reset: any value -> the
                    // target (an event that is not injective on that variable)
                    if (sm.to[v] >= 0 && R.chance(1, 5)) sm.from[v] = -1;
                }
                for (long x = 0; x < D.N; x++) for (long y = 0; y < D.N; y++)
                    if (symMatches(D, true, sm, x, y)) U.v[size_t(x * D.N + y)] = Val::b(true);
                symToMinterm(FX, sm, mc.unused());
                mc.unused().setValue(rangeval(true));
                mc.pushUnused();
                desc << (j ? " + " : "; event ") << "(";
                for (int v = 1; v <= D.nvars(); v++) {
                    if (v > 1) desc << ",";
                    if (sm.from[v] < 0) desc << "*"; else desc << sm.from[v];
                    desc << ">";
                    if (sm.to[v] == -2) desc << "="; else if (sm.to[v] < 0) desc << "*"; else desc << sm.to[v];
                }
                desc << ")";
            }
            dd_edge ev(FX.f);
            mc.buildFunctionMax(rangeval(false), ev);
            evs.push_back(ev);
        }
    }
    catch (MEDDLY::error &e) {
        failNow("X1", cur_family, std::string("building events threw ") + e.getName());
        return;
    }
    Table want;
    closure(A.tab, U, true, D.N, want);
    EdgeSlot* res = newEdge(s.client, ri);
    res->tab = want;
    pregen_relation* pr = nullptr;
    saturation_operation* sat = nullptr;
    try {
        if (mode == 0) pr = new pregen_relation(FX.f, nev);
        else           pr = new pregen_relation(FX.f);
        for (dd_edge &e : evs) pr->addToRelation(e);
        if (mode == 0) pr->finalize();
        else pr->finalize(pregen_relation::splittingOption(mode - 1));
    }
    catch (MEDDLY::error &e) {
        markErrored(rfi);
        dropEdge(edges.size() - 1);
        delete pr;
        failNow("O2", cur_family, std::string("building the partitioned relation threw ") + e.getName());
        return;
    }
    // construction of the operation is where unsupported forest
    // combinations are declined
    try {
        sat = SATURATION_FORWARD(FA.f, pr, forests[ri].f);
        if (!sat) throw error(error::NOT_IMPLEMENTED, __FILE__, __LINE__);
    }
    catch (MEDDLY::error &e) {
        dropEdge(edges.size() - 1);
        delete pr;
        const error::code c = e.getCode();
        if (c == error::TYPE_MISMATCH || c == error::NOT_IMPLEMENTED
            || (c == error::FOREST_MISMATCH && ri != A.forest)) {
            stats.opcount["satpart:declined"]++;
            note(OC_DECLINED, uint64_t(c)); return;
        }
        failNow("O2", cur_family, std::string("SATURATION_FORWARD could not be built: ") + e.getName());
        return;
    }
    try {
        sat->compute(*A.e, *res->e);
        // the operation owns the relation from here on
    }
    catch (MEDDLY::error &e) {
        markErrored(A.forest); markErrored(rfi); markErrored(ri);
        dropEdge(edges.size() - 1);
        failNow("O2", cur_family, std::string("partitioned saturation threw ") + e.getName());
        return;
    }
    stats.opcount[mode == 0 ? "satpart:by_events" : "satpart:by_levels"]++;
    if (!checkEdge(*res, "I1", cur_family, "partitioned saturation")) return;
    // same edge as monolithic reachability over the union (same forest)
    if (sameOrder(ri, rfi)) {
        try {
            dd_edge un(FX.f);
            FX.f->createConstant(rangeval(false), un);
            for (dd_edge &e : evs) apply(UNION, un, e, un);
            dd_edge init2(forests[ri].f), mono(forests[ri].f);
            apply(COPY, *A.e, init2);
            apply(REACHABLE_TRAD_NOFS(true), init2, un, mono);
            if (mono != *res->e) {
                failNow("I2", cur_family, "partitioned saturation and monolithic reachability return different edges");
                return;
            }
            stats.opcount["satpart:vs_monolithic"]++;
        }
        catch (MEDDLY::error &e) {
            markErrored(rfi); markErrored(ri);
        }
    }
    note(OC_OK, want.hash(), long(res->e->getNodeCount()));
}

// ----------------------------------------------------------------------
// reorder: a[0] forest; target permutation from the step seed
// ----------------------------------------------------------------------
void World::opReorder(const Step &s)
{
    cur_family = "reorder";
    int fi = pickForest(s.a[0], [&](const ForRT &F) {
        FKind k = F.kind();
        // KF-C16-2: nodes leaked by an operation that raised an error are
        // relabelled by a later reordering into nodes that break a
        // quasi-reduced forest's rule (probe plans only)
        if (F.errored && F.spec.red == 1 && s.a[5] != 999) return false;
        if (F.spec.rel) return k == FK_MTB || k == FK_MTI || k == FK_MTR;
        return k == FK_MTB || k == FK_MTI || k == FK_MTR || k == FK_EVP;
    });
    if (fi < 0) { note(OC_SKIP); return; }
    ForRT &F = forests[fi];
    const int n = int(F.lvl2var.size()) - 1;
    Rng R(s.seed);
    std::vector<int> l2v(size_t(n) + 1, 0);
    for (int k = 1; k <= n; k++) l2v[size_t(k)] = k;
    for (int k = n; k > 1; k--) std::swap(l2v[size_t(k)], l2v[size_t(1 + R.below(k))]);
    desc << "reorder " << fn(fi) << " heuristic " << F.spec.reorder << (F.spec.swap ? " LEVEL" : " VAR") << " target";
    if (tracing) { fprintf(stderr, "   doing: %s\n", desc.str().c_str()); fflush(stderr); }
    for (int k = 1; k <= n; k++) desc << " " << l2v[size_t(k)];
    // other forests over the same domain: remember their roots
    std::vector<std::pair<EdgeSlot*, dd_edge>> others;
    for (EdgeSlot* e : edges) {
        if (e->forest >= 0 && e->forest != fi && forests[e->forest].alive
            && forests[e->forest].spec.dom == F.spec.dom) others.push_back(std::make_pair(e, dd_edge(*e->e)));
    }
    // open iterators on this forest become unusable (they cache the order)
    try {
        F.f->reorderVariables(l2v.data());
    }
    catch (MEDDLY::error &e) {
        markErrored(fi);
        if (e.getCode() == error::NOT_IMPLEMENTED || e.getCode() == error::INVALID_OPERATION) {
            note(OC_DECLINED, uint64_t(e.getCode())); return;
        }
        failNow("O2", cur_family, std::string("reorderVariables threw ") + e.getName());
        return;
    }
    stats.fired["reorder"]++;
    stats.opcount[std::string("reorder:heur") + std::to_string(F.spec.reorder) + (F.spec.swap ? ":LEVEL" : ":VAR")]++;
    // the forest now reports its order; it must be a permutation
    std::vector<int> seen(size_t(n) + 1, 0);
    for (int k = 1; k <= n; k++) {
        int v = F.f->getVarByLevel(k);
        if (v < 1 || v > n || seen[size_t(v)]++) {
            failNow("V1", cur_family, "after reordering the level-to-variable map is not a permutation");
            return;
        }
        if (F.f->getLevelByVar(v) != k) {
            failNow("V1", cur_family, "after reordering level->variable and variable->level maps disagree");
            return;
        }
        F.lvl2var[size_t(k)] = v;
    }
    bool reached = true;
    for (int k = 1; k <= n; k++) if (F.lvl2var[size_t(k)] != l2v[size_t(k)]) reached = false;
    if (reached) stats.opcount["reorder:target_reached"]++;
    else {
        std::ostringstream o;
        o << "reorderVariables returned without error but the forest is not in the requested order: requested";
        for (int k = 1; k <= n; k++) o << " " << l2v[size_t(k)];
        o << ", forest reports";
        for (int k = 1; k <= n; k++) o << " " << F.lvl2var[size_t(k)];
        failNow("V1", cur_family, o.str());
        return;
    }
    for (auto &pr : others) {
        if (*pr.first->e != pr.second) {
            failNow("V1", cur_family, "reordering one forest changed an edge of another forest");
            return;
        }
    }
    // every held edge in F still denotes the same function (I1 now, all)
    for (EdgeSlot* e : edges) {
        if (e->forest == fi && !checkEdge(*e, "I1", cur_family, "after reorder")) return;
    }
    note(OC_OK, uint64_t(reached));
}

// ----------------------------------------------------------------------
// index: index sets.  a[0] set slot, a[1] index forest
// ----------------------------------------------------------------------
void World::opIndexSet(const Step &s)
{
    cur_family = "index";
    std::vector<size_t> ca = edgesWhere([&](const EdgeSlot &e) {
        return e.forest >= 0 && forests[e.forest].alive && !forests[e.forest].spec.rel
            && forests[e.forest].kind() == FK_MTB && e.oracle;
    });
    if (ca.empty()) { note(OC_SKIP); return; }
    EdgeSlot &A = *edges[pick(ca, s.a[0])];
    ForRT &FA = forests[A.forest];
    int ri = pickForest(s.a[1], [&](const ForRT &F) {
        return F.spec.dom == FA.spec.dom && !F.spec.rel && F.kind() == FK_IDX;
    });
    if (ri < 0 || !sameOrder(A.forest, ri)) { note(OC_SKIP); return; }
    ForRT &FR = forests[ri];
    const Dom &D = doms[FA.spec.dom].m;
    // members in lexicographic order
    std::vector<std::pair<std::vector<int>, long>> mem;
    for (long x = 0; x < D.N; x++) if (A.tab.v[size_t(x)].i) mem.push_back(std::make_pair(lexKey(FR, D, x, 0), x));
    std::sort(mem.begin(), mem.end());
    EdgeSlot* res = newEdge(s.client, ri);
    desc << en(*res) << " = CONVERT_TO_INDEX_SET(" << en(A) << ", " << mem.size() << " members) in " << fn(ri) << ", lookups -1.." << mem.size();
    if (tracing) { fprintf(stderr, "   doing: %s\n", desc.str().c_str()); fflush(stderr); }
    res->tab = Table::constant(D, false, Val::pinf(Val::I));
    for (size_t i = 0; i < mem.size(); i++) res->tab.v[size_t(mem[i].second)] = Val::n(long(i));
    try {
        apply(CONVERT_TO_INDEX_SET, *A.e, *res->e);
    }
    catch (MEDDLY::error &e) {
        markErrored(A.forest); markErrored(ri);
        dropEdge(edges.size() - 1);
        if (e.getCode() == error::TYPE_MISMATCH || e.getCode() == error::NOT_IMPLEMENTED) {
            note(OC_DECLINED, uint64_t(e.getCode())); return;
        }
        failNow("O2", cur_family, std::string("CONVERT_TO_INDEX_SET threw ") + e.getName());
        return;
    }
    stats.opcount["index:convert"]++;
    if (!checkEdge(*res, "I1", cur_family, "index set")) return;
    // the cardinality stored in every node of the result equals the number
    // of members below it
    {
        std::map<node_handle, long> memo;
        std::function<long(node_handle)> count = [&](node_handle p) -> long {
            if (p == 0) return 0;
            if (p < 0) return 1;
            auto it = memo.find(p);
            if (it != memo.end()) return it->second;
            unpacked_node* U = unpacked_node::newFromNode(FR.f, p, SPARSE_ONLY);
            long c = 0;
            for (unsigned z = 0; z < U->getSize(); z++) c += count(U->down(z));
            unpacked_node::Recycle(U);
            memo[p] = c;
            return c;
        };
        count(res->e->getNode());
        for (auto &kv : memo) {
            const long stored = FR.f->getIndexSetCardinality(kv.first);
            if (stored != kv.second) {
                std::ostringstream o;
                o << "index-set node " << kv.first << " stores cardinality " << stored << ", " << kv.second << " members lie below it";
                failNow("X2", cur_family, o.str());
                return;
            }
        }
        stats.opcount["index:node_cardinalities"] += long(memo.size());
    }
    // lookups
    try {
        minterm m(FR.f);
        const long n = long(mem.size());
        for (long i = -1; i <= n; i++) {
            bool ok = res->e->getElement(i, m);
            if (i < 0 || i >= n) {
                if (ok) {
                    std::ostringstream o; o << "getElement(" << i << ") succeeds on an index set of " << n << " members";
                    failNow("X2", cur_family, o.str()); return;
                }
                continue;
            }
            if (!ok) {
                std::ostringstream o; o << "getElement(" << i << ") fails on an index set of " << n << " members";
                failNow("X2", cur_family, o.str()); return;
            }
            long st = 0;
            for (int k = 1; k <= D.nvars(); k++) st += m.from(unsigned(k)) * D.stride[FR.lvl2var[size_t(k)] - 1];
            if (st != mem[size_t(i)].second) {
                std::ostringstream o; o << "getElement(" << i << ") returns state " << st << ", member #" << i << " is state " << mem[size_t(i)].second;
                failNow("X2", cur_family, o.str()); return;
            }
        }
        long card = -1;
        apply(CARDINALITY, *res->e, card);
        if (card != n) {
            std::ostringstream o; o << "index set of " << n << " members reports cardinality " << card;
            failNow("N2", cur_family, o.str()); return;
        }
    }
    catch (MEDDLY::error &e) {
        failNow("O2", cur_family, std::string("index-set lookup threw ") + e.getName());
        return;
    }
    stats.opcount["index:lookup"] += long(mem.size()) + 2;
    note(OC_OK, res->tab.hash(), long(res->e->getNodeCount()));
}


// ----------------------------------------------------------------------
// bigcard: counting and index lookups beyond 32 bits.  A dense table cannot
// hold such sets, so this step uses its own domain and an analytic model: a
// union of cubes made disjoint by distinct values of the top variable.
// Cardinality = sum over cubes of the product of the free variables' sizes;
// the lexicographic numbering is: cubes in order of their top value, within
// a cube mixed radix over its free variables from the top level down.
// a[0] shape, a[1] reduction (0 fully, 1 quasi), a[2]&1 also index set
// ----------------------------------------------------------------------
void World::opBigCard(const Step &s)
{
    cur_family = "count";
    Rng R(s.seed);
    const int nv = 11 + int(R.below(5));
    std::vector<int> sz(size_t(nv) + 1, 0);
    for (int k = 1; k <= nv; k++) sz[size_t(k)] = 5 + int(R.below(4));      // 5..8
    const bool quasi = (s.a[1] & 1);
    const bool doIndex = quasi && (s.a[2] & 1);     // conversion of skipped levels is exponential in a fully-reduced source
    const unsigned ncubes = 1 + unsigned(R.below(unsigned(sz[size_t(nv)])));
    desc << "big set: " << nv << " variables, " << ncubes << " disjoint cubes, " << (quasi ? "quasi" : "fully") << "-reduced"
         << (doIndex ? ", index set lookups" : "");
    struct Cube { std::vector<int> fix; long count; };
    std::vector<Cube> cubes(ncubes);
    long total = 0;
    for (unsigned c = 0; c < ncubes; c++) {
        cubes[c].fix.assign(size_t(nv) + 1, -1);
        cubes[c].fix[size_t(nv)] = int(c);          // distinct top values, ascending
        long cnt = 1;
        for (int k = 1; k < nv; k++) {
            if (R.chance(1, 4)) cubes[c].fix[size_t(k)] = int(R.below(unsigned(sz[size_t(k)])));
            else cnt *= sz[size_t(k)];
        }
        cubes[c].count = cnt;
        total += cnt;
    }
    domain* d = nullptr;
    forest* f = nullptr;
    forest* fx = nullptr;
    try {
        d = domain::createBottomUp(sz.data() + 1, unsigned(nv));
        policies p(false);
        if (quasi) p.setQuasiReduced(); else p.setFullyReduced();
        f = forest::create(d, false, range_type::BOOLEAN, edge_labeling::MULTI_TERMINAL, p);
        max_fid_seen = std::max(max_fid_seen, f->FID());
        dd_edge set(f);
        {
            minterm_coll mc(ncubes, f);
            for (unsigned c = 0; c < ncubes; c++) {
                for (int k = 1; k <= nv; k++) mc.unused().setVar(unsigned(k), cubes[c].fix[size_t(k)] < 0 ? DONT_CARE : cubes[c].fix[size_t(k)]);
                mc.unused().setValue(rangeval(true));
                mc.pushUnused();
            }
            mc.buildFunctionMax(rangeval(false), set);
        }
        for (int round = 0; round < 2; round++) {       // the second round meets the compute table
            long cl = -1; double cd = -1;
            apply(CARDINALITY, set, cl);
            apply(CARDINALITY, set, cd);
            mpz_t z; mpz_init(z);
            apply(CARDINALITY, set, z);
            const double cz = mpz_get_d(z);
            mpz_clear(z);
            if (cl != total || cd != double(total) || cz != double(total)) {
                std::ostringstream o;
                o << "CARDINALITY (call " << round + 1 << ") of a set with " << total << " elements gives long=" << cl
                  << " double=" << cd << " mpz=" << cz;
                failNow("N2", cur_family, o.str());
                break;
            }
        }
        if (!failed() && doIndex) {
            fx = forest::create(d, false, range_type::INTEGER, edge_labeling::INDEX_SET);
            max_fid_seen = std::max(max_fid_seen, fx->FID());
            dd_edge idx(fx);
            apply(CONVERT_TO_INDEX_SET, set, idx);
            minterm m(fx);
            const long probes[] = { 0, 1, total - 1, total, total + 5, (1L << 31) - 1, (1L << 31), (1L << 31) + 7, (1L << 32), (1L << 32) + 1, total / 2, -1 };
            for (long ix : probes) {
                const bool want = (ix >= 0 && ix < total);
                const bool got = idx.getElement(ix, m);
                if (got != want) {
                    std::ostringstream o;
                    o << "getElement(" << ix << ") on an index set of " << total << " members " << (got ? "succeeds" : "fails");
                    failNow("X2", "index", o.str());
                    break;
                }
                if (!want) continue;
                // decode the expected member
                long rest = ix;
                unsigned c = 0;
                while (rest >= cubes[c].count) { rest -= cubes[c].count; c++; }
                std::vector<int> x(size_t(nv) + 1, 0);
                long radix = cubes[c].count;
                for (int k = nv; k >= 1; k--) {
                    if (cubes[c].fix[size_t(k)] >= 0) { x[size_t(k)] = cubes[c].fix[size_t(k)]; continue; }
                    radix /= sz[size_t(k)];
                    x[size_t(k)] = int(rest / radix);
                    rest %= radix;
                }
                for (int k = 1; k <= nv; k++) {
                    if (m.from(unsigned(k)) != x[size_t(k)]) {
                        std::ostringstream o;
                        o << "getElement(" << ix << ") on an index set of " << total << " members returns the wrong member (variable at level "
                          << k << " is " << m.from(unsigned(k)) << ", expected " << x[size_t(k)] << ")";
                        failNow("X2", "index", o.str());
                        break;
                    }
                }
                if (failed()) break;
            }
            stats.opcount["bigcard:index"]++;
        }
    }
    catch (MEDDLY::error &e) {
        failNow("O2", cur_family, std::string("counting a large set threw ") + e.getName());
    }
    if (d) domain::destroy(d);      // destroys its forests as well
    stats.opcount["bigcard"]++;
    if (total >= (1L << 31)) stats.opcount["bigcard:over_2^31"]++;
    if (!failed()) note(OC_OK, uint64_t(total));
}

}
