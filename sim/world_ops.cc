// Step handlers, part 1: construction, element-wise operations, copies,
// releases, purges.  Every handler: pick operands (modulo live slots),
// compute the model answer, call the library, compare.
#include "world.h"

#include <algorithm>
#include <cmath>
#include <sstream>

using namespace MEDDLY;

namespace sim {

typedef binary_factory& (*bin_builtin)();

static bin_builtin binFactory(BinOp o)
{
    switch (o) {
        case BO_UNION:          return UNION;
        case BO_INTERSECTION:   return INTERSECTION;
        case BO_DIFFERENCE:     return DIFFERENCE;
        case BO_PLUS:           return PLUS;
        case BO_MINUS:          return MINUS;
        case BO_MULTIPLY:       return MULTIPLY;
        case BO_DIVIDE:         return DIVIDE;
        case BO_MODULO:         return MODULO;
        case BO_MAXIMUM:        return MAXIMUM;
        case BO_MINIMUM:        return MINIMUM;
        case BO_DIST_MIN:       return DIST_MIN;
        case BO_EQ:             return EQUAL;
        case BO_NE:             return NOT_EQUAL;
        case BO_LT:             return LESS_THAN;
        case BO_LE:             return LESS_THAN_EQUAL;
        case BO_GT:             return GREATER_THAN;
        default:                return GREATER_THAN_EQUAL;
    }
}

// ----------------------------------------------------------------------
// result handling shared by all producers
// ----------------------------------------------------------------------

void World::finishResult(const Step &s, EdgeSlot* res, const std::string &family)
{
    if (failed()) return;
    if (res->forest >= 0 && forests[res->forest].alive) {
        ForRT &F = forests[res->forest];
        if (F.f->getCurrentNumNodes() > 20000) { abandoned = true; }
    }
    if (!checkEdge(*res, "I1", family, "fresh result")) return;
    long nc = -1, ec = -1;
    if (res->forest >= 0) {
        nc = long(res->e->getNodeCount());
        ec = long(res->e->getEdgeCount(false));
    }
    uint64_t shape = 0;
    if (res->forest >= 0 && forests[res->forest].alive) {
        shape = shapeHash(forests[res->forest], *res->e);
        // the walk above and the library's own count see the same nodes
        // (memo size is folded into the hash; compare it with getNodeCount through the companion runs)
    }
    note(res->oracle ? OC_OK : OC_NOORACLE, res->tab.hash(), nc, ec, shape);
}

static bool pointMatches(const Dom &D, long state, const std::vector<int> &pat)
{
    // pat[v] for v=1..n : -1 don't care, else fixed
    long a = state;
    for (int v = 1; v <= D.nvars(); v++) {
        int x = int(a % D.sizes[v-1]); a /= D.sizes[v-1];
        if (pat[v] >= 0 && pat[v] != x) return false;
    }
    return true;
}

bool symMatches(const Dom &D, bool rel, const SymMT &m, long sf, long st)
{
    long a = sf, b = st;
    for (int v = 1; v <= D.nvars(); v++) {
        int x = int(a % D.sizes[v-1]); a /= D.sizes[v-1];
        if (m.from[v] >= 0 && m.from[v] != x) return false;
        if (rel) {
            int y = int(b % D.sizes[v-1]); b /= D.sizes[v-1];
            if (m.to[v] >= 0 && m.to[v] != y) return false;
            if (m.to[v] == -2 && y != x) return false;
        }
    }
    return true;
}

static void genSym(Rng &R, const Dom &D, bool rel, SymMT &m, unsigned dcPct,
        unsigned dchPct)
{
    const int n = D.nvars();
    m.from.assign(n + 1, -1);
    m.to.assign(n + 1, -1);
    for (int v = 1; v <= n; v++) {
        if (R.below(100) >= dcPct) m.from[v] = int(R.below(D.sizes[v-1]));
        if (rel) {
            unsigned r = unsigned(R.below(100));
            if (r < dchPct) m.to[v] = -2;
            else if (r < dchPct + dcPct) m.to[v] = -1;
            else m.to[v] = int(R.below(D.sizes[v-1]));
        }
    }
}

void symToMinterm(const ForRT &F, const SymMT &s, minterm &m)
{
    const int n = int(F.lvl2var.size()) - 1;
    for (int k = 1; k <= n; k++) {
        const int v = F.lvl2var[k];
        int f = s.from[v] < 0 ? DONT_CARE : s.from[v];
        if (F.spec.rel) {
            int t = (s.to[v] == -2) ? DONT_CHANGE
                  : (s.to[v] < 0 ? DONT_CARE : s.to[v]);
            m.setVars(unsigned(k), f, t);
        } else {
            m.setVar(unsigned(k), f);
        }
    }
}

static std::string symStr(const SymMT &m, bool rel)
{
    std::ostringstream o;
    o << "(";
    for (size_t v = 1; v < m.from.size(); v++) {
        if (v > 1) o << ",";
        if (m.from[v] < 0) o << "*"; else o << m.from[v];
        if (rel) {
            o << ">";
            if (m.to[v] == -2) o << "="; else if (m.to[v] < 0) o << "*"; else o << m.to[v];
        }
    }
    o << ")";
    return o.str();
}

static bool valLess(const Val &a, const Val &b)
{
    if (a.inf) return false;
    if (b.inf) return true;
    return a.num() < b.num();
}

// ----------------------------------------------------------------------
// mkconst: a[0] forest, seed -> value
// ----------------------------------------------------------------------
void World::opMkConst(const Step &s)
{
    cur_family = "construct";
    int fi = pickForest(s.a[0], [](const ForRT &F) { return F.kind() != FK_IDX; });
    if (fi < 0) { note(OC_SKIP); return; }
    ForRT &F = forests[fi];
    Rng R(s.seed);
    Val c = randomValue(R, F.kind(), int(s.a[1] % 3));
    if (F.kind() == FK_EVT && c.inf) c = Val::r(0.0);
    const Dom &D = doms[F.spec.dom].m;
    EdgeSlot* res = newEdge(s.client, fi);
    desc << en(*res) << " = constant " << c.str() << " in " << fn(fi);
    if (tracing) { fprintf(stderr, "   doing: %s\n", desc.str().c_str()); fflush(stderr); }
    res->tab = Table::constant(D, F.spec.rel, c);
    try {
        F.f->createConstant(toRangeval(F.kind(), c), *res->e);
    }
    catch (MEDDLY::error &e) {
        failNow("X1", cur_family, std::string("createConstant(") + c.str()
            + ") in " + fkName(F.kind()) + " threw " + e.getName());
        return;
    }
    finishResult(s, res, cur_family);
}

// ----------------------------------------------------------------------
// mkvar: a[0] forest, a[1] variable, a[2]: primed?, a[3]: custom terms?
// ----------------------------------------------------------------------
void World::opMkVar(const Step &s)
{
    cur_family = "construct";
    int fi = pickForest(s.a[0], [](const ForRT &F) {
        return F.kind() != FK_IDX;
    });
    if (fi < 0) { note(OC_SKIP); return; }
    ForRT &F = forests[fi];
    const Dom &D = doms[F.spec.dom].m;
    Rng R(s.seed);
    const int v = 1 + int(s.a[1] % unsigned(D.nvars()));
    const bool pr = F.spec.rel && (s.a[2] & 1);
    const bool custom = (s.a[3] % 3) != 0 || F.kind() == FK_MTB;
    const int sz = D.sizes[v-1];
    std::vector<Val> terms(sz);
    std::vector<rangeval> rterms(sz);
    for (int i = 0; i < sz; i++) {
        if (custom) {
            terms[i] = randomValue(R, F.kind(), 0);
            if (terms[i].inf && F.kind() != FK_EVP) terms[i] = defaultOf(F.kind());
        } else {
            switch (rangeOf(F.kind())) {
                case Val::I: terms[i] = Val::n(i); break;
                default:     terms[i] = Val::r(double(i)); break;
            }
        }
        rterms[i] = toRangeval(F.kind(), terms[i]);
    }
    EdgeSlot* res = newEdge(s.client, fi);
    desc << en(*res) << " = variable x" << v << (pr ? "'" : "") << " in " << fn(fi) << " terms";
    if (tracing) { fprintf(stderr, "   doing: %s\n", desc.str().c_str()); fflush(stderr); }
    if (custom) for (int i = 0; i < sz; i++) desc << " " << terms[i].str(); else desc << " default";
    res->tab = Table::constant(D, F.spec.rel, defaultOf(F.kind()));
    const long total = long(res->tab.v.size());
    for (long i = 0; i < total; i++) {
        long st = F.spec.rel ? (pr ? i % D.N : i / D.N) : i;
        int x = int((st / D.stride[v-1]) % D.sizes[v-1]);
        res->tab.v[size_t(i)] = terms[x];
    }
    try {
        // variable handle = variable number (not level)
        F.f->createEdgeForVar(v, pr, custom ? rterms.data() : nullptr, *res->e);
    }
    catch (MEDDLY::error &e) {
        failNow("X1", cur_family, std::string("createEdgeForVar in ")
            + fkName(F.kind()) + " threw " + e.getName());
        return;
    }
    finishResult(s, res, cur_family);
}

// ----------------------------------------------------------------------
// mkmt: single minterm with default.  a[0] forest, a[1] dc%, a[2] dch%
// ----------------------------------------------------------------------
void World::opMkMinterm(const Step &s)
{
    cur_family = "construct";
    // functions are built directly in an index-set forest only in the C15
    // profile (so that conversions meet structurally identical nodes that
    // were not made by a conversion)
    const bool idxOK = (plan.prop == "C15");
    int fi = pickForest(s.a[0], [&](const ForRT &F) { return idxOK || F.kind() != FK_IDX; });
    if (fi < 0) { note(OC_SKIP); return; }
    ForRT &F = forests[fi];
    const Dom &D = doms[F.spec.dom].m;
    Rng R(s.seed);
    SymMT sm;
    const int mflavour = ((s.a[3] >> 3) % 5 == 0) ? 3 : (((s.a[3] >> 3) % 5 == 1) ? 4 : 0);
    // neutral-element values go with identity patterns (don't care -> unchanged)
    if (mflavour == 4 && F.spec.rel) genSym(R, D, true, sm, 70, 70);
    else genSym(R, D, F.spec.rel, sm, s.a[1] % 60, s.a[2] % 40);
    Val deflt = defaultOf(F.kind());
    Val val = randomValue(R, F.kind(), mflavour);
    if (F.kind() == FK_MTB) val = Val::b(true);
    if (val.inf && F.kind() != FK_EVP && F.kind() != FK_IDX) val = defaultOf(F.kind());
    // KF-C03-1 (known_findings.txt): a minterm whose value is the forest's
    // transparent value builds a malformed graph; only the probe plan
    // (a[5] == 999) goes there
    if (s.a[5] != 999 && val.same(defaultOf(F.kind()))) {
        switch (F.kind()) {
            case FK_MTI: val = Val::n(3); break;
            case FK_MTR: case FK_EVT: val = Val::r(2.0); break;
            case FK_EVP: case FK_IDX: val = Val::n(2); break;
            default: break;
        }
    }
    if ((s.a[3] % 4) == 0 && F.kind() != FK_MTB && F.kind() != FK_EVT) {
        // non-standard default
        deflt = randomValue(R, F.kind(), 0);
        if (deflt.inf && F.kind() != FK_EVP) deflt = defaultOf(F.kind());
    }
    EdgeSlot* res = newEdge(s.client, fi);
    desc << en(*res) << " = minterm " << symStr(sm, F.spec.rel) << " value " << val.str() << " default " << deflt.str() << " in " << fn(fi);
    if (tracing) { fprintf(stderr, "   doing: %s\n", desc.str().c_str()); fflush(stderr); }
    res->tab = Table::constant(D, F.spec.rel, deflt);
    const long total = long(res->tab.v.size());
    for (long i = 0; i < total; i++) {
        long sf = F.spec.rel ? i / D.N : i;
        long st = F.spec.rel ? i % D.N : 0;
        if (symMatches(D, F.spec.rel, sm, sf, st)) res->tab.v[size_t(i)] = val;
    }
    try {
        minterm m(F.f);
        symToMinterm(F, sm, m);
        m.setValue(toRangeval(F.kind(), val));
        if (getenv("SIM_DEBUG")) { FILE_output o(stderr); o << "mkmt deflt " << deflt.str().c_str() << " val " << val.str().c_str() << " : "; m.show(o); o << "\n"; }
        m.buildFunction(toRangeval(F.kind(), deflt), *res->e);
    }
    catch (MEDDLY::error &e) {
        failNow("X1", cur_family, std::string("minterm::buildFunction in ")
            + fkName(F.kind()) + " threw " + e.getName());
        return;
    }
    finishResult(s, res, cur_family);
}

// ----------------------------------------------------------------------
// mkcoll: collection.  a[0] forest, a[1] count, a[2] dc%, a[3] dch%,
// a[4] default selector
// ----------------------------------------------------------------------
void World::opMkColl(const Step &s, bool useMax)
{
    cur_family = "construct";
    // (collections are not offered for index-set forests: INVALID_OPERATION)
    int fi = pickForest(s.a[0], [&](const ForRT &F) { return F.kind() != FK_IDX; });
    if (fi < 0) { note(OC_SKIP); return; }
    ForRT &F = forests[fi];
    const Dom &D = doms[F.spec.dom].m;
    Rng R(s.seed);
    const unsigned cnt = 1 + s.a[1] % 12;
    std::vector<SymMT> ms(cnt);
    // 3: wide values (EV+ beyond 32 bits); 4: the neutral and absorbing
    // elements the operations' shortcut predicates look for
    const int vflavour = ((s.a[4] >> 4) % 5 == 0) ? 3 : (((s.a[4] >> 4) % 5 == 1) ? 4 : 0);
    for (unsigned i = 0; i < cnt; i++) {
        genSym(R, D, F.spec.rel, ms[i], s.a[2] % 50, s.a[3] % 40);
        // one entry in five repeats the pattern of an earlier entry exactly
        // (duplicates are combined by the builder itself, not by max/min nodes)
        if (i && R.chance(1, 5)) { const Val keep = ms[i].val; ms[i] = ms[R.below(i)]; ms[i].val = keep; }
        ms[i].val = randomValue(R, F.kind(), vflavour);
        if (F.kind() == FK_MTB) ms[i].val = Val::b(true);
        if (ms[i].val.inf && F.kind() != FK_EVP && F.kind() != FK_IDX) ms[i].val = defaultOf(F.kind());
        // KF-C03-1 / KF-C03-2: values equal to the forest's transparent value
        // (0 in MT forests, +infinity in EV+) only in the probe plans
        if (s.a[5] != 999 && ms[i].val.same(defaultOf(F.kind()))) {
            switch (F.kind()) {
                case FK_MTI: ms[i].val = Val::n(1 + long(i % 5)); break;
                case FK_MTR: case FK_EVT: ms[i].val = Val::r(0.5 * double(1 + i % 4)); break;
                case FK_EVP: case FK_IDX: ms[i].val = Val::n(long(i % 7)); break;
                default: break;
            }
        }
    }
    // default must bound all values (below for max, above for min)
    Val deflt;
    {
        Val lo = ms[0].val, hi = ms[0].val;
        for (auto &m : ms) {
            if (valLess(m.val, lo)) lo = m.val;
            if (valLess(hi, m.val)) hi = m.val;
        }
        if (F.kind() == FK_MTB) {
            if (!useMax) {
                // min with default true and values true is legal but dull;
                // use default false is not allowed (must be >= values)
                deflt = Val::b(true);
            } else deflt = Val::b(false);
        } else if (useMax) {
            deflt = lo;
            if ((s.a[4] & 1) && !lo.inf) {
                if (rangeOf(F.kind()) == Val::I) {
                    long d = lo.i - long(s.a[4] % 3);
                    if (F.kind() == FK_EVP && d < 0) d = 0;
                    deflt = Val::n(d);
                } else if (F.kind() == FK_MTR) {
                    deflt = Val::r(lo.d - double(s.a[4] % 3));
                }
            }
            if (F.kind() == FK_EVT) deflt = lo;
        } else {
            deflt = hi;
            if (F.kind() == FK_EVP && (s.a[4] & 1)) deflt = Val::pinf(Val::I);
            else if ((s.a[4] & 1) && !hi.inf) {
                if (rangeOf(F.kind()) == Val::I) deflt = Val::n(hi.i + long(s.a[4] % 3));
                else if (F.kind() == FK_MTR) deflt = Val::r(hi.d + double(s.a[4] % 3));
            }
        }
    }
    EdgeSlot* res = newEdge(s.client, fi);
    desc << en(*res) << " = collection " << (useMax ? "max" : "min") << " default " << deflt.str() << " in " << fn(fi) << ":";
    if (tracing) { fprintf(stderr, "   doing: %s\n", desc.str().c_str()); fflush(stderr); }
    for (auto &m : ms) desc << " " << symStr(m, F.spec.rel) << "=" << m.val.str();
    res->tab = Table::constant(D, F.spec.rel, deflt);
    const long total = long(res->tab.v.size());
    for (long i = 0; i < total; i++) {
        long sf = F.spec.rel ? i / D.N : i;
        long st = F.spec.rel ? i % D.N : 0;
        bool any = false;
        Val best;
        for (auto &m : ms) {
            if (!symMatches(D, F.spec.rel, m, sf, st)) continue;
            if (!any) { best = m.val; any = true; }
            else if (useMax ? valLess(best, m.val) : valLess(m.val, best)) best = m.val;
        }
        if (any) res->tab.v[size_t(i)] = best;
    }
    try {
        minterm_coll mc(cnt, F.f);
        for (unsigned i = 0; i < cnt; i++) {
            symToMinterm(F, ms[i], mc.unused());
            mc.unused().setValue(toRangeval(F.kind(), ms[i].val));
            mc.pushUnused();
        }
        if (getenv("SIM_DEBUG")) { FILE_output o(stderr); o << "mkcoll deflt " << deflt.str().c_str() << "\n"; mc.show(o); }
        if (useMax) mc.buildFunctionMax(toRangeval(F.kind(), deflt), *res->e);
        else        mc.buildFunctionMin(toRangeval(F.kind(), deflt), *res->e);
    }
    catch (MEDDLY::error &e) {
        failNow("X1", cur_family, std::string("minterm_coll::buildFunction")
            + (useMax ? "Max" : "Min") + " in " + fkName(F.kind())
            + " threw " + e.getName());
        return;
    }
    finishResult(s, res, cur_family);
}

// ----------------------------------------------------------------------
// mkgraph: a sparse random transition relation (explicit state pairs, about
// one to two per state, plus at most one pattern minterm) in a boolean
// relation forest.  The collection builders above mostly give near-empty or
// near-complete relations, on which reachability and images are trivial.
// a[0] forest, a[1] density selector
// ----------------------------------------------------------------------
void World::opMkGraph(const Step &s)
{
    cur_family = "construct";
    int fi = pickForest(s.a[0], [](const ForRT &F) { return F.kind() == FK_MTB && F.spec.rel; });
    if (fi < 0) { note(OC_SKIP); return; }
    ForRT &F = forests[fi];
    const Dom &D = doms[F.spec.dom].m;
    Rng R(s.seed);
    const unsigned m = 1 + unsigned(R.below(uint64_t(D.N * (1 + s.a[1] % 2)))) + unsigned(D.N / 2);
    EdgeSlot* res = newEdge(s.client, fi);
    res->tab = Table::constant(D, true, Val::b(false));
    desc << en(*res) << " = random graph with " << m << " explicit transitions in " << fn(fi);
    if (tracing) { fprintf(stderr, "   doing: %s\n", desc.str().c_str()); fflush(stderr); }
    try {
        minterm_coll mc(m + 1, F.f);
        for (unsigned i = 0; i < m; i++) {
            const long x = long(R.below(uint64_t(D.N))), y = long(R.below(uint64_t(D.N)));
            res->tab.v[size_t(x * D.N + y)] = Val::b(true);
            fillMinterm(F, mc.unused(), x, y);
            mc.unused().setValue(rangeval(true));
            mc.pushUnused();
        }
        if (R.chance(1, 3)) {
            SymMT sm;
            genSym(R, D, true, sm, 30, 50);
            for (long x = 0; x < D.N; x++) for (long y = 0; y < D.N; y++)
                if (symMatches(D, true, sm, x, y)) res->tab.v[size_t(x * D.N + y)] = Val::b(true);
            symToMinterm(F, sm, mc.unused());
            mc.unused().setValue(rangeval(true));
            mc.pushUnused();
        }
        mc.buildFunctionMax(rangeval(false), *res->e);
    }
    catch (MEDDLY::error &e) {
        failNow("X1", cur_family, std::string("building a random graph threw ") + e.getName());
        return;
    }
    finishResult(s, res, cur_family);
}

// ----------------------------------------------------------------------
// bin: a[0] BinOp, a[1] operand A, a[2] operand B, a[3] result forest,
// a[4] flags (1: result in A's forest, 2: B from A's forest kind,
// 4: result overwrites operand A's slot edge)
// ----------------------------------------------------------------------
void World::opBinary(const Step &s)
{
    // choose among the operations that have operands at all: set algebra
    // needs boolean edges, everything else needs non-boolean ones
    bool haveBool = false, haveNum = false;
    for (const EdgeSlot* e : edges) {
        if (e->forest < 0 || !forests[e->forest].alive) continue;
        const FKind k = forests[e->forest].kind();
        if (k == FK_MTB) haveBool = true; else if (k != FK_IDX) haveNum = true;
    }
    BinOp op = BinOp(s.a[0] % BO_NUM);
    if (haveBool && !haveNum) op = BinOp(s.a[0] % 3);
    else if (haveNum && !haveBool) op = BinOp(3 + s.a[0] % (BO_NUM - 3));
    // calls that get a neutral element as operand (below) concentrate on the
    // operations that have neutral / absorbing elements
    if (op > BO_DIFFERENCE && (s.a[4] >> 6) % 6 == 0) {
        static const BinOp nops[] = { BO_MULTIPLY, BO_MULTIPLY, BO_MULTIPLY, BO_PLUS, BO_MINUS, BO_MAXIMUM, BO_MINIMUM, BO_DIVIDE };
        op = nops[(s.a[0] >> 5) % 8];
    }
    cur_family = (op <= BO_DIFFERENCE) ? "setalg" : "arith";
    std::vector<size_t> ca = edgesWhere([&](const EdgeSlot &e) {
        if (e.forest < 0 || !forests[e.forest].alive) return false;
        FKind k = forests[e.forest].kind();
        if (k == FK_IDX) return false;
        if (op <= BO_DIFFERENCE) return k == FK_MTB;
        return k != FK_MTB;
    });
    if (ca.empty()) { note(OC_SKIP); return; }
    EdgeSlot* Aptr = edges[pick(ca, s.a[1])];
    // One arithmetic call in six gets a freshly built neutral / absorbing
    // element as first operand - a constant 1, 0 or -1, or (relations) that
    // value on the identity pattern only - in some forest of the same kind,
    // possibly with another reduction rule than the second operand's: the
    // inputs the operations' shortcut predicates are written for.
    if (op > BO_DIFFERENCE && (s.a[4] >> 6) % 6 == 0) {
        const ForRT &F0 = forests[Aptr->forest];
        const int fe = pickForest(s.a[3] >> 3, [&](const ForRT &F) {
            return F.kind() == F0.kind() && F.spec.dom == F0.spec.dom && F.spec.rel == F0.spec.rel;
        });
        if (fe >= 0) {
            ForRT &FE = forests[fe];
            const Dom &DE = doms[FE.spec.dom].m;
            Rng RE(s.seed ^ 0xE1);
            static const long cs[] = { 1, 1, 0, -1 };
            long c = cs[RE.below(4)];
            if (FE.kind() == FK_EVP && c < 0) c = 0;
            const Val cv = (rangeOf(FE.kind()) == Val::R) ? Val::r(double(c)) : Val::n(c);
            const bool pattern = FE.spec.rel && RE.chance(1, 2) && !cv.same(defaultOf(FE.kind()));
            EdgeSlot* E = newEdge(s.client, fe);
            try {
                if (pattern) {
                    E->tab = Table::constant(DE, true, defaultOf(FE.kind()));
                    for (long x = 0; x < DE.N; x++) E->tab.v[size_t(x * DE.N + x)] = cv;
                    minterm m(FE.f);
                    for (int k = 1; k <= DE.nvars(); k++) m.setVars(unsigned(k), DONT_CARE, DONT_CHANGE);
                    m.setValue(toRangeval(FE.kind(), cv));
                    m.buildFunction(toRangeval(FE.kind(), defaultOf(FE.kind())), *E->e);
                } else {
                    E->tab = Table::constant(DE, FE.spec.rel, cv);
                    FE.f->createConstant(toRangeval(FE.kind(), cv), *E->e);
                }
            }
            catch (MEDDLY::error &e) {
                failNow("X1", "construct", std::string("building a neutral element threw ") + e.getName());
                return;
            }
            desc << "[first operand " << en(*E) << " = " << cv.str() << (pattern ? " on the identity pattern" : " everywhere") << " in " << fn(fe) << "] ";
            if (!checkEdge(*E, "I1", "construct", "neutral element")) return;
            stats.fired["neutral_operand"]++;
            Aptr = E;
        }
    }
    EdgeSlot &A = *Aptr;
    ForRT &FA = forests[A.forest];
    std::vector<size_t> cb = edgesWhere([&](const EdgeSlot &e) {
        if (e.forest < 0 || !forests[e.forest].alive) return false;
        if (&e == Aptr) return false;
        const ForRT &FB = forests[e.forest];
        if (FB.spec.dom != FA.spec.dom || FB.spec.rel != FA.spec.rel) return false;
        if (FB.kind() == FK_IDX) return false;
        if (op <= BO_DIFFERENCE) return FB.kind() == FK_MTB;
        if (s.a[4] & 2) return FB.kind() == FA.kind();
        return rangeOf(FB.kind()) == rangeOf(FA.kind());
    });
    if (cb.empty()) { note(OC_SKIP); return; }
    EdgeSlot &B = *edges[pick(cb, s.a[2])];
    ForRT &FB = forests[B.forest];
    int ri;
    if (s.a[4] & 1) ri = A.forest;
    else ri = pickForest(s.a[3], [&](const ForRT &F) {
        if (F.spec.dom != FA.spec.dom || F.spec.rel != FA.spec.rel) return false;
        if (F.kind() == FK_IDX) return false;
        if (op <= BO_DIFFERENCE) return F.kind() == FK_MTB;
        if (op >= BO_EQ) return true;
        return F.kind() == FA.kind();
    });
    if (ri < 0 || !sameOrder(A.forest, B.forest) || !sameOrder(A.forest, ri)) { note(OC_SKIP); return; }
    ForRT &FR = forests[ri];
    const Dom &D = doms[FA.spec.dom].m;

    // model
    Table out;
    out.rel = FA.spec.rel; out.N = D.N;
    out.v.resize(A.tab.v.size());
    ModelErr merr = ME_NONE;
    unsigned merrs = 0;     // every kind of invalid scalar case met at some point
    bool oracle = A.oracle && B.oracle;
    if (oracle) {
        for (size_t i = 0; i < out.v.size(); i++) {
            ModelErr e = scalarBin(op, FA.kind(), A.tab.v[i], FB.kind(),
                    B.tab.v[i], FR.kind(), out.v[i]);
            if (e != ME_NONE) {
                // an undefined point makes the whole call oracle-free; a
                // documented error dominates only if no point is undefined
                if (e == ME_UNDEFINED) { merr = ME_UNDEFINED; break; }
                if (merr == ME_NONE) merr = e;
                merrs |= 1u << unsigned(e);
            } else if (!kindHoldsValue(FR.kind(), out.v[i])) {
                merr = ME_UNDEFINED; break;
            }
        }
    }
    if (!oracle || merr == ME_UNDEFINED) oracle = false;

    // 64-bit overflow of EV+ values is outside every property: keep products
    // and sums of the wide values away from it
    if (FA.kind() == FK_EVP && (op == BO_MULTIPLY || op == BO_PLUS || op == BO_MINUS)) {
        double ma = 0, mb = 0;
        for (const Val &v : A.tab.v) if (!v.inf && std::fabs(double(v.i)) > ma) ma = std::fabs(double(v.i));
        for (const Val &v : B.tab.v) if (!v.inf && std::fabs(double(v.i)) > mb) mb = std::fabs(double(v.i));
        const double lim = 4.0e18;
        if ((op == BO_MULTIPLY && ma * mb > lim) || (op != BO_MULTIPLY && ma + mb > lim) || !A.oracle || !B.oracle) {
            if (ma > 2147483648.0 || mb > 2147483648.0) { note(OC_SKIP); return; }
        }
    }

    // snapshot operands (never changed by the operation)
    dd_edge ca_copy(*A.e), cb_copy(*B.e);

    EdgeSlot* res = newEdge(s.client, ri);
    desc << en(*res) << " = " << binName(op) << "(" << en(A) << ", " << en(B) << ") in " << fn(ri);
    if (tracing) { fprintf(stderr, "   doing: %s\n", desc.str().c_str()); fflush(stderr); }
    bool threw = false;
    std::string ename;
    error::code ecode = error::code(0);
    // one call in six passes the same dd_edge object as first operand and
    // as result (in-place use)
    const bool inplace = (ri == A.forest) && ((s.a[4] >> 3) % 6 == 0);
    if (inplace) { *res->e = *A.e; desc << " [in place: result edge is the first operand]"; stats.fired["result_aliases_operand"]++; }
    try {
        if (inplace) apply(binFactory(op), *res->e, *B.e, *res->e);
        else         apply(binFactory(op), *A.e, *B.e, *res->e);
    }
    catch (MEDDLY::error &e) {
        threw = true;
        ename = e.getName();
        ecode = e.getCode();
    }
    if (*A.e != ca_copy || *B.e != cb_copy) {
        failNow("O1", cur_family, std::string(binName(op)) + " changed an operand");
        return;
    }
    stats.opcount[std::string("bin:") + binName(op)]++;
    if (threw) {
        markErrored(A.forest); markErrored(B.forest); markErrored(ri);
        dropEdge(edges.size() - 1);
        if (oracle && merr == ME_NONE) {
            if (ecode == error::TYPE_MISMATCH || ecode == error::NOT_IMPLEMENTED
                || ecode == error::UNKNOWN_OPERATION || ecode == error::FOREST_MISMATCH || ecode == error::INVALID_OPERATION) {
                // combination not offered by the library
                note(OC_DECLINED, uint64_t(ecode));
                // declining is not an error path through node construction
                return;
            }
            std::ostringstream o;
            o << binName(op) << " on " << fkName(FA.kind()) << "," << fkName(FB.kind())
              << "->" << fkName(FR.kind()) << " threw " << ename
              << " but every point is defined";
            failNow("O2", cur_family, o.str());
            return;
        }
        if (oracle && merr != ME_NONE) {
            // the library reports whichever invalid point its traversal
            // meets first: any documented error that some point calls for
            bool ok = false;
            if (merrs & (1u << ME_DIV_ZERO))     ok = ok || (ecode == error::DIVIDE_BY_ZERO);
            if (merrs & (1u << ME_SUB_INF))      ok = ok || (ecode == error::SUBTRACT_INFINITY);
            if (merrs & (1u << ME_INF_DIV_INF))  ok = ok || (ecode == error::INFINITY_DIV_INFINITY || ecode == error::DIVIDE_BY_ZERO);
            if (merrs & (1u << ME_OVERFLOW))     ok = ok || (ecode == error::VALUE_OVERFLOW);
            if (ecode == error::TYPE_MISMATCH || ecode == error::NOT_IMPLEMENTED) ok = true;
            if (!ok) {
                failNow("E1", cur_family, std::string(binName(op))
                    + " raised " + ename + " instead of the documented error");
                return;
            }
            stats.fired["error_in_recursion"]++;
        }
        note(OC_ERROR, uint64_t(ecode));
        return;
    }
    // no throw
    if (oracle && merr != ME_NONE) {
        // The operands contain an invalid scalar case, yet a value came
        // back.  The library short-circuits on transparent operands (0 / 0,
        // inf - inf met below a transparent edge), so this clause of C05 is
        // decided only by the dedicated misuse step (non-transparent
        // dividend); here the result simply has no oracle.
        stats.fired["invalid_case_returned_value"]++;
        oracle = false;
    }
    res->tab = out;
    res->oracle = oracle;
    if (FR.kind() == FK_EVT || FA.kind() == FK_EVT || FB.kind() == FK_EVT) res->fexact = false;
    finishResult(s, res, cur_family);
}

// ----------------------------------------------------------------------
// compl: a[0] operand, a[1] result forest, a[2]&1 same forest
// ----------------------------------------------------------------------
void World::opComplement(const Step &s)
{
    cur_family = "setalg";
    std::vector<size_t> ca = edgesWhere([&](const EdgeSlot &e) {
        return e.forest >= 0 && forests[e.forest].alive
            && forests[e.forest].kind() == FK_MTB;
    });
    if (ca.empty()) { note(OC_SKIP); return; }
    EdgeSlot &A = *edges[pick(ca, s.a[0])];
    ForRT &FA = forests[A.forest];
    int ri = (s.a[2] & 1) ? A.forest : pickForest(s.a[1], [&](const ForRT &F) {
        return F.spec.dom == FA.spec.dom && F.spec.rel == FA.spec.rel
            && F.kind() == FK_MTB;
    });
    if (ri < 0 || !sameOrder(A.forest, ri)) { note(OC_SKIP); return; }
    dd_edge a_copy(*A.e);
    EdgeSlot* res = newEdge(s.client, ri);
    desc << en(*res) << " = COMPLEMENT(" << en(A) << ") in " << fn(ri);
    if (tracing) { fprintf(stderr, "   doing: %s\n", desc.str().c_str()); fflush(stderr); }
    res->tab = A.tab;
    res->oracle = A.oracle;
    for (Val &x : res->tab.v) x = Val::b(!x.i);
    try {
        apply(COMPLEMENT, *A.e, *res->e);
    }
    catch (MEDDLY::error &e) {
        markErrored(A.forest); markErrored(ri);
        dropEdge(edges.size() - 1);
        if (e.getCode() == error::TYPE_MISMATCH || e.getCode() == error::NOT_IMPLEMENTED) {
            note(OC_DECLINED, uint64_t(e.getCode()));
            return;
        }
        failNow("O2", cur_family, std::string("COMPLEMENT threw ") + e.getName());
        return;
    }
    if (*A.e != a_copy) { failNow("O1", cur_family, "COMPLEMENT changed its operand"); return; }
    stats.opcount["un:COMPLEMENT"]++;
    finishResult(s, res, cur_family);
}

// ----------------------------------------------------------------------
// copy: across forests.  a[0] operand, a[1] target forest, a[2]&1: and back
// ----------------------------------------------------------------------
void World::opCopy(const Step &s)
{
    cur_family = "copy";
    std::vector<size_t> ca = edgesWhere([&](const EdgeSlot &e) {
        return e.forest >= 0 && forests[e.forest].alive;
    });
    if (ca.empty()) { note(OC_SKIP); return; }
    EdgeSlot &A = *edges[pick(ca, s.a[0])];
    ForRT &FA = forests[A.forest];
    int ri = pickForest(s.a[1], [&](const ForRT &F) {
        // KF-C10-1: identity-reduced MT relation -> EV+ relation (probe plans only)
        if (FA.spec.rel && FA.spec.red == 2 && F.kind() == FK_EVP && FA.kind() != FK_EVP && s.a[5] != 999) return false;
        return F.spec.dom == FA.spec.dom && F.spec.rel == FA.spec.rel
            && F.kind() != FK_IDX;
    });
    if (ri < 0 || !sameOrder(A.forest, ri)) { note(OC_SKIP); return; }
    ForRT &FR = forests[ri];
    EdgeSlot* res = newEdge(s.client, ri);
    res->fexact = A.fexact && A.tab.pow2();
    desc << en(*res) << " = COPY(" << en(A) << " from " << fn(A.forest) << ") into " << fn(ri) << ((s.a[2] & 1) ? " and back" : "");
    if (tracing) { fprintf(stderr, "   doing: %s\n", desc.str().c_str()); fflush(stderr); }
    res->tab = A.tab;
    res->oracle = A.oracle;
    // there-and-back identity is claimed where no information can be lost:
    // same kind, or integer -> real
    bool lossless = (FR.kind() == FA.kind()) || (FA.kind() == FK_MTI && FR.kind() == FK_MTR);
    for (size_t i = 0; i < res->tab.v.size() && res->oracle; i++) {
        Val o;
        ModelErr e = convertVal(FA.kind(), A.tab.v[i], FR.kind(), o);
        if (e != ME_NONE || !kindHoldsValue(FR.kind(), o)) { res->oracle = false; break; }
        Val back;
        if (convertVal(FR.kind(), o, FA.kind(), back) != ME_NONE || !back.same(A.tab.v[i])) lossless = false;
        res->tab.v[i] = o;
    }
    dd_edge a_copy(*A.e);
    try {
        apply(COPY, *A.e, *res->e);
    }
    catch (MEDDLY::error &e) {
        markErrored(A.forest); markErrored(ri);
        const bool hadOr = A.oracle && res->oracle;
        dropEdge(edges.size() - 1);
        if (e.getCode() == error::TYPE_MISMATCH || e.getCode() == error::NOT_IMPLEMENTED
            || !hadOr) {
            note(OC_DECLINED, uint64_t(e.getCode()));
            return;
        }
        failNow("O2", cur_family, std::string("COPY ") + fkName(FA.kind()) + "->"
            + fkName(FR.kind()) + " threw " + e.getName());
        return;
    }
    if (*A.e != a_copy) { failNow("O1", cur_family, "COPY changed its operand"); return; }
    stats.opcount[std::string("copy:") + fkName(FA.kind()) + ">" + fkName(FR.kind())]++;
    const bool hadOracle = res->oracle;
    finishResult(s, res, cur_family);
    if (failed()) return;
    if ((s.a[2] & 1) && hadOracle && lossless && A.tab.exact()) {
        // there and back: must be the identical edge
        dd_edge back(FA.f);
        try {
            apply(COPY, *res->e, back);
        }
        catch (MEDDLY::error &e) {
            markErrored(A.forest); markErrored(ri);
            if (e.getCode() == error::TYPE_MISMATCH || e.getCode() == error::NOT_IMPLEMENTED) return;
            failNow("O2", cur_family, std::string("COPY back threw ") + e.getName());
            return;
        }
        if (back != *A.e) {
            failNow("I2", cur_family, std::string("copy ") + fkName(FA.kind())
                + "->" + fkName(FR.kind()) + "->back is not the identical edge");
            return;
        }
        stats.opcount["copy:roundtrip"]++;
    }
}

// copyedge: dd_edge copy constructor.  a[0] operand
void World::opCopyEdge(const Step &s)
{
    cur_family = "edges";
    if (edges.empty()) { note(OC_SKIP); return; }
    EdgeSlot &A = *edges[pickAny(s.a[0])];
    EdgeSlot* res = new EdgeSlot;
    res->client = s.client;
    res->forest = A.forest;
    res->tab = A.tab;
    res->oracle = A.oracle;
    res->fexact = A.fexact;
    res->e = new dd_edge(*A.e);
    res->born = uint64_t(cur_step);
    res->id = freshEdgeId();
    edges.push_back(res);
    desc << en(*res) << " = dd_edge(" << en(A) << ")";
    if (tracing) { fprintf(stderr, "   doing: %s\n", desc.str().c_str()); fflush(stderr); }
    if (A.forest >= 0 && *res->e != *A.e) {
        failNow("I2", cur_family, "a copied edge is not equal to its source");
        return;
    }
    note(OC_OK, res->tab.hash());
}

// assign: a[0] target slot, a[1] source slot
void World::opAssign(const Step &s)
{
    cur_family = "edges";
    if (edges.size() < 2) { note(OC_SKIP); return; }
    EdgeSlot &T = *edges[pickAny(s.a[0])];
    EdgeSlot &S = *edges[pickAny(s.a[1])];
    desc << en(T) << " := " << en(S);
    if (tracing) { fprintf(stderr, "   doing: %s\n", desc.str().c_str()); fflush(stderr); }
    if (!checkEdge(T, "I1", cur_family, "edge about to be overwritten")) return;
    if (!checkEdge(S, "I1", cur_family, "assignment source")) return;
    *T.e = *S.e;
    T.forest = S.forest;
    T.tab = S.tab;
    T.oracle = S.oracle;
    T.fexact = S.fexact;
    note(OC_OK, T.tab.hash());
}

// release: a[0] slot
void World::opRelease(const Step &s)
{
    cur_family = "edges";
    if (edges.empty()) { note(OC_SKIP); return; }
    const size_t victim = pickAny(s.a[0]);
    desc << "release " << en(*edges[victim]);
    if (tracing) { fprintf(stderr, "   doing: %s\n", desc.str().c_str()); fflush(stderr); }
    if (!checkEdge(*edges[victim], "I1", cur_family, "edge about to be released")) return;
    dropEdge(victim);
    note(OC_OK);
}

// drain: release all edges of forest a[0] (or of client), clear caches,
// audit I6
void World::opDrain(const Step &s)
{
    cur_family = "drain";
    int fi = pickForest(s.a[0], [](const ForRT &) { return true; });
    if (fi < 0) { note(OC_SKIP); return; }
    desc << "drain " << fn(fi) << " (release every edge, clear caches mode " << s.a[1] % 3 << ")";
    if (tracing) { fprintf(stderr, "   doing: %s\n", desc.str().c_str()); fflush(stderr); }
    for (size_t i = edges.size(); i; ) {
        --i;
        if (edges[i]->forest != fi) continue;
        if (!checkEdge(*edges[i], "I1", cur_family, "edge about to be released")) return;
        dropEdge(i);
    }
    stats.drains++;
    stats.fired["drain"]++;
    switch (s.a[1] % 3) {
        case 0:
            forests[fi].f->removeAllComputeTableEntries();
            break;
        case 1:
            // all tables, monolithic or not
            if (!compute_table::removeAllFromMonolithic()) {
                forests[fi].f->removeAllComputeTableEntries();
            }
            break;
        default:
            forests[fi].f->removeAllComputeTableEntries();
            break;
    }
    auditDrain(forests[fi]);
    note(OC_OK);
}

// masscopy: a[0] slot, a[1] count selector; copies then releases
void World::opMassCopy(const Step &s)
{
    cur_family = "edges";
    std::vector<size_t> ca = edgesWhere([&](const EdgeSlot &e) {
        return e.forest >= 0 && forests[e.forest].alive;
    });
    if (ca.empty()) { note(OC_SKIP); return; }
    EdgeSlot &A = *edges[pick(ca, s.a[0])];
    static const unsigned counts[] = { 260, 300, 520, 70000 };
    unsigned n = counts[s.a[1] % (plan.prop == "THOROUGH" ? 4 : 3)];
    if (s.a[2] == 777) n = 70000;
    desc << n << " copies of " << en(A) << ", then release";
    if (tracing) { fprintf(stderr, "   doing: %s\n", desc.str().c_str()); fflush(stderr); }
    std::vector<dd_edge*> cp;
    cp.reserve(n);
    for (unsigned i = 0; i < n; i++) cp.push_back(new dd_edge(*A.e));
    stats.fired["counter_excursion"]++;
    ForRT &F = forests[A.forest];
    if (F.f->getNodeManager() && A.e->getNode() > 0) {
        unsigned long ic = F.f->getNodeInCount(A.e->getNode());
        if (ic < n) {
            std::ostringstream o;
            o << "after " << n << " copies the root's incoming count is " << ic;
            failNow("I4", cur_family, o.str());
        }
    }
    // release in a seed-chosen order: front half first or back half first
    if (s.a[3] & 1) std::reverse(cp.begin(), cp.end());
    for (dd_edge* e : cp) delete e;
    if (!failed()) checkEdge(A, "I1", cur_family, "after mass copy");
    note(OC_OK);
}

// hoard: a[0] slot, a[1] target size selector.  Creates copies of one edge
// that stay alive across steps (released in stages by "unhoard").
void World::opHoard(const Step &s)
{
    cur_family = "edges";
    std::vector<size_t> ca = edgesWhere([&](const EdgeSlot &e) {
        return e.forest >= 0 && forests[e.forest].alive && e.e->getNode() > 0;
    });
    if (ca.empty() || hoards.size() >= 3) { note(OC_SKIP); return; }
    EdgeSlot &A = *edges[pick(ca, s.a[0])];
    static const unsigned small[] = { 254, 255, 256, 257, 258, 300, 20 };
    static const unsigned big[] = { 65534, 65535, 65536, 65537, 65600 };
    unsigned n = small[s.a[1] % 7];
    if (s.a[2] == 777) n = big[s.a[1] % 5];
    Hoard* H = new Hoard;
    H->forest = A.forest;
    H->id = A.id;
    H->tab = A.tab;
    H->oracle = A.oracle;
    H->copies.reserve(n);
    for (unsigned i = 0; i < n; i++) H->copies.push_back(new dd_edge(*A.e));
    hoards.push_back(H);
    desc << "hold " << n << " copies of " << en(A);
    if (tracing) { fprintf(stderr, "   doing: %s\n", desc.str().c_str()); fflush(stderr); }
    stats.fired["counter_excursion"]++;
    note(OC_OK, uint64_t(n));
}

// unhoard: a[0] hoard, a[1] how many stay.  Releases copies so that the
// count lands on (or next to) a counter-width boundary, or releases all.
void World::opUnhoard(const Step &s)
{
    cur_family = "edges";
    if (hoards.empty()) { note(OC_SKIP); return; }
    const size_t hi = s.a[0] % hoards.size();
    Hoard* H = hoards[hi];
    static const unsigned stay[] = { 256, 255, 257, 254, 0, 1, 65536, 65535, 253 };
    size_t keep = stay[s.a[1] % 9];
    if (keep >= H->copies.size()) keep = H->copies.size() / 2;
    desc << "release copies of e" << H->id << "@F" << H->forest << ": " << H->copies.size() << " -> " << keep;
    if (tracing) { fprintf(stderr, "   doing: %s\n", desc.str().c_str()); fflush(stderr); }
    // check before releasing
    if (H->forest >= 0 && forests[H->forest].alive && !H->copies.empty()) {
        EdgeSlot tmp; tmp.forest = H->forest; tmp.tab = H->tab; tmp.oracle = H->oracle; tmp.e = H->copies.back();
        if (!checkEdge(tmp, "I1", cur_family, "hoarded copy")) return;
    }
    const bool front = s.a[2] & 1;
    while (H->copies.size() > keep) {
        if (front) { delete H->copies.front(); H->copies.erase(H->copies.begin()); }
        else { delete H->copies.back(); H->copies.pop_back(); }
    }
    if (H->copies.empty()) { delete H; hoards.erase(hoards.begin() + long(hi)); }
    note(OC_OK, uint64_t(keep));
}

void World::dropHoards()
{
    for (Hoard* H : hoards) {
        for (dd_edge* e : H->copies) delete e;
        delete H;
    }
    hoards.clear();
}

// detach/attach: a[0] slot; detach an edge (becomes inert)
void World::opDetachAttach(const Step &s)
{
    cur_family = "edges";
    if (edges.empty()) { note(OC_SKIP); return; }
    EdgeSlot &A = *edges[pickAny(s.a[0])];
    desc << "detach " << en(A);
    if (tracing) { fprintf(stderr, "   doing: %s\n", desc.str().c_str()); fflush(stderr); }
    A.e->detach();
    A.forest = -1;
    if (false && (s.a[1] & 1)) {
        int fi = pickForest(s.a[2], [](const ForRT &) { return true; });
        if (fi >= 0) {
            A.e->attach(forests[fi].f);
            A.forest = fi;
            ForRT &F = forests[fi];
            const Dom &D = doms[F.spec.dom].m;
            // a freshly attached edge has node 0: the function "0 node";
            // we know its value only for MT (terminal 0 = false/0/0.0)
            A.tab = Table::constant(D, F.spec.rel, defaultOf(F.kind()));
            A.oracle = (F.kind() == FK_MTB || F.kind() == FK_MTI || F.kind() == FK_MTR);
        }
    }
    note(OC_OK);
}

// purge: a[0] kind
void World::opPurge(const Step &s)
{
    cur_family = "purge";
    stats.purges++;
    desc << "purge mode " << s.a[0] % 4;
    if (tracing) { fprintf(stderr, "   doing: %s\n", desc.str().c_str()); fflush(stderr); }
    switch (s.a[0] % 4) {
        case 0:
            if (compute_table::removeStalesFromMonolithic()) stats.fired["purge_stales"]++;
            else {
                int fi = pickForest(s.a[1], [](const ForRT &) { return true; });
                (void) fi;
            }
            break;
        case 1:
            if (compute_table::removeAllFromMonolithic()) stats.fired["purge_all"]++;
            else {
                for (ForRT &F : forests) if (F.alive) F.f->removeAllComputeTableEntries();
                stats.fired["purge_forest"]++;
            }
            break;
        case 2: {
            int fi = pickForest(s.a[1], [](const ForRT &) { return true; });
            if (fi >= 0) { forests[fi].f->removeAllComputeTableEntries(); stats.fired["purge_forest"]++; }
            break;
        }
        default: {
            int fi = pickForest(s.a[1], [](const ForRT &) { return true; });
            if (fi >= 0 && compute_table::removeStalesFromMonolithic()) stats.fired["purge_stales"]++;
            break;
        }
    }
    note(OC_OK);
}

// rebuild: rebuild the function of slot a[0] along another path in the
// same forest and require the identical edge (C01).
//  path 0: one minterm per non-default point, buildFunctionMax/Min
//  path 1: union/maximum of per-point functions, in seeded order
//  path 2: copy through another forest and back (if lossless)
void World::opRebuild(const Step &s)
{
    cur_family = "canon";
    std::vector<size_t> ca = edgesWhere([&](const EdgeSlot &e) {
        if (e.forest < 0 || !forests[e.forest].alive || !e.oracle) return false;
        FKind k = forests[e.forest].kind();
        if (k == FK_IDX) return false;
        return e.tab.exact();
    });
    if (ca.empty()) { note(OC_SKIP); return; }
    EdgeSlot &A = *edges[pick(ca, s.a[0])];
    ForRT &F = forests[A.forest];
    const Dom &D = doms[F.spec.dom].m;
    const FKind k = F.kind();
    Rng R(s.seed);
    // list the points in seeded order
    std::vector<long> pts;
    const Val dfl = defaultOf(k);
    for (size_t i = 0; i < A.tab.v.size(); i++) {
        if (!A.tab.v[i].same(dfl)) pts.push_back(long(i));
    }
    for (size_t i = pts.size(); i > 1; i--) std::swap(pts[i-1], pts[R.below(i)]);
    dd_edge built(F.f);
    const unsigned path = s.a[1] % 2;
    desc << "rebuild " << en(A) << " (" << pts.size() << " points) along path " << path << " in " << fn(A.forest);
    if (tracing) { fprintf(stderr, "   doing: %s\n", desc.str().c_str()); fflush(stderr); }
    try {
        // EV+ default is +inf: combine by min; MT: default 0 and arbitrary
        // values: build by layering with a value-wise approach
        bool canMax = true;
        for (long p : pts) if (valLess(A.tab.v[size_t(p)], dfl)) canMax = false;
        bool canMin = true;
        for (long p : pts) if (valLess(dfl, A.tab.v[size_t(p)])) canMin = false;
        if (k == FK_EVT) { note(OC_SKIP); return; }
        if (!canMax && !canMin) {
            // mixed signs around the default: no single collection call
            note(OC_SKIP); return;
        }
        if (path == 0 || pts.empty()) {
            minterm_coll mc(unsigned(pts.size() ? pts.size() : 1), F.f);
            for (long p : pts) {
                long sf = F.spec.rel ? p / D.N : p;
                long st = F.spec.rel ? p % D.N : 0;
                fillMinterm(F, mc.unused(), sf, st);
                mc.unused().setValue(toRangeval(k, A.tab.v[size_t(p)]));
                mc.pushUnused();
            }
            if (canMax) mc.buildFunctionMax(toRangeval(k, dfl), built);
            else        mc.buildFunctionMin(toRangeval(k, dfl), built);
        } else {
            F.f->createConstant(toRangeval(k, dfl), built);
            for (long p : pts) {
                long sf = F.spec.rel ? p / D.N : p;
                long st = F.spec.rel ? p % D.N : 0;
                minterm m(F.f);
                fillMinterm(F, m, sf, st);
                m.setValue(toRangeval(k, A.tab.v[size_t(p)]));
                dd_edge one(F.f);
                m.buildFunction(toRangeval(k, dfl), one);
                if (k == FK_MTB) apply(UNION, built, one, built);
                else if (canMax) apply(MAXIMUM, built, one, built);
                else             apply(MINIMUM, built, one, built);
            }
        }
    }
    catch (MEDDLY::error &e) {
        markErrored(A.forest);
        if (e.getCode() == error::TYPE_MISMATCH || e.getCode() == error::NOT_IMPLEMENTED) {
            note(OC_DECLINED); return;
        }
        failNow("X1", cur_family, std::string("rebuild threw ") + e.getName());
        return;
    }
    stats.opcount["rebuild"]++;
    if (built != *A.e) {
        // is it the function that is wrong, or only the edge?
        Table got;
        libTable(F, built, got);
        std::ostringstream o;
        o << "the same function rebuilt along path " << path << " in " << fkName(k)
          << (F.spec.rel ? " rel" : " set") << " red=" << F.spec.red
          << " is a different edge (functions " << (got.same(A.tab) ? "equal" : "differ") << ")";
        failNow(got.same(A.tab) ? "I2" : "I1", cur_family, o.str());
        return;
    }
    note(OC_OK, A.tab.hash());
}

}
