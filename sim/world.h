// The simulated world: library objects and their model twins, the step
// interpreter and the invariant monitors.
#ifndef SIM_WORLD_H
#define SIM_WORLD_H

#include "plan.h"
#include "model.h"

#include "../src/meddly.h"

#include <map>
#include <memory>
#include <set>
#include <sstream>
#include <string>
#include <vector>

namespace sim {

// ----------------------------------------------------------------------
// Failure record
// ----------------------------------------------------------------------
struct Failure {
    bool set = false;
    std::string monitor;    // I1, I2, I3, I4, I5, I6, I7, I8, E1, X1 ...
    std::string family;     // step family: construct, setalg, arith, ...
    std::string detail;
    int step = -1;
    std::string cls() const { return monitor + ":" + family; }
};

// per-step observation (model level only; never addresses or handles)
struct Obs {
    int outcome = 0;        // OC_*
    uint64_t h = 0;         // fingerprint of what the library returned
    long nodes = -1;        // getNodeCount of the result (if any)
    long edges = -1;
    uint64_t shape = 0;     // hash of the result's graph up to renaming of node handles
};

enum Outcome {
    OC_OK = 0, OC_SKIP = 1, OC_DECLINED = 2, OC_ERROR = 3, OC_NOORACLE = 4,
    OC_ABANDON = 5
};

// A symbolic minterm in variable space
struct SymMT {
    std::vector<int> from;  // [v], -1 = don't care
    std::vector<int> to;    // [v], -1 = don't care, -2 = don't change
    Val val;
};
typedef SymMT SymMask;
struct ForRT;
bool symMatches(const Dom &D, bool rel, const SymMT &m, long sf, long st);
void symToMinterm(const ForRT &F, const SymMT &s, MEDDLY::minterm &m);

// ----------------------------------------------------------------------
// Runtime twins
// ----------------------------------------------------------------------
struct DomRT {
    Dom m;
    MEDDLY::domain* d = nullptr;
    bool alive = false;
};

struct ForRT {
    ForSpec spec;
    MEDDLY::forest* f = nullptr;
    bool alive = false;
    bool errored = false;       // an error was raised in an op touching it
    unsigned fid = 0;
    std::vector<int> lvl2var;   // model's view of the variable order
    uint64_t audit_sig = 0;     // cheap signature at the last structure audit
    inline FKind kind() const { return FKind(spec.kind); }
};

struct EdgeSlot {
    int client = 0;
    int forest = -1;            // index in World::forests; -1 = detached
    Table tab;                  // model twin
    bool oracle = true;         // false: model has no opinion on contents
    MEDDLY::dd_edge* e = nullptr;
    uint64_t born = 0;          // step at which the function was obtained
    int id = 0;                 // stable name for traces
    bool fexact = true;         // EV*: obtained without float arithmetic (construction / copy only)
};

struct IterSlot {
    int client = 0;
    int forest = -1;
    MEDDLY::dd_edge* root = nullptr;    // private copy keeps the nodes alive
    MEDDLY::minterm* mask = nullptr;
    MEDDLY::dd_edge::iterator* it = nullptr;
    // expected visit sequence: (from state, to state, value)
    struct Item { long from; long to; Val v; };
    std::vector<Item> expect;
    std::vector<int> order;     // forest order when opened
    size_t pos = 0;
};

// many copies of one edge, held across steps and released in stages
// (reference counts sitting exactly on the 8/16/32-bit counter boundaries
// while other work resizes the handle arrays)
struct Hoard {
    int forest = -1;
    int id = 0;
    Table tab;
    bool oracle = true;
    std::vector<MEDDLY::dd_edge*> copies;
};

struct FileSlot {
    std::string bytes;          // contents of the simulated disk file
    int kind = 0;               // FKind of the writing forest
    int rel = 0;
    int red = 0;
    int dom = 0;                // domain index (sizes must match to read)
    std::vector<int> sizes;
    std::vector<int> lvl2var;   // order of the writing forest
    std::vector<Table> roots;   // model twins, in order
    std::vector<bool> oracle;
    int epoch = 0;              // library initialisations seen when written
    unsigned writer_fid = 0;    // identifier of the writing forest
    int writer_slot = -1;
};

struct Stats {
    long steps = 0;
    long skipped = 0;
    long declined = 0;
    long errors = 0;
    long nooracle = 0;
    long evals = 0;
    long audits = 0;
    long hits_dropped = 0;
    long purges = 0;
    long drains = 0;
    long drains_checked = 0;
    long i2_pairs = 0;
    long nodes_audited = 0;
    long mm_requests = 0;
    long mm_recycles = 0;
    std::map<std::string, long> opcount;
    std::map<std::string, long> fired;      // fault kinds actually fired
};

class World {
    public:
        World(const Plan &P);
        ~World();

        // Execute the whole plan.  Returns true if no failure was recorded.
        bool run();

        // Abstract-state fingerprint (bucketed sizes), for coverage counts
        uint64_t abstractState() const;

    public:
        const Plan &plan;
        Failure fail;
        EventHash eh;
        std::vector<Obs> obs;
        Stats stats;
        bool abandoned = false;
        bool characteristic = false;   // profile's "non-trivial" condition
        int cur_step = -1;
        std::string cur_family;
        std::ostringstream desc;        // human-readable account of the current step (trace / replay files)
        std::vector<std::string> story; // one line per executed step
        std::set<uint32_t> astates;     // abstract states seen (coverage measure)
        std::vector<unsigned long> hits_per_step;   // compute-table hits met in each step
        bool tracing = false;

        // options
        bool full_audit = true;         // run I3/I4/I5 after every step
        int  i1_every = 4;              // re-evaluate every held edge every n-th step (fresh results,
                                        // operands and edges about to be released are always checked)
        int  audit_every = 4;           // structure/count audits of forests whose cheap signature did
                                        // not change happen every n-th step; changed forests every step
        bool cold_cache = false;        // differential: clear all CTs before each step
        bool verbose = false;

    // ---------------- library state ----------------
    public:
        std::vector<DomRT> doms;
        std::vector<ForRT> forests;
        std::vector<EdgeSlot*> edges;
        std::vector<IterSlot*> iters;
        std::vector<FileSlot*> files;
        std::vector<Hoard*> hoards;
        bool lib_running = false;
        int lib_epoch = 0;              // number of cleanup()/initialize() restarts so far
        unsigned max_fid_seen = 0;

    // ---------------- life cycle ----------------
    public:
        void startLibrary(const Config &c);
        void stopLibrary();
        void createDomains();
        void createForest(int idx);
        void destroyForest(int idx);
        void destroyDomain(int idx);

    // ---------------- helpers ----------------
    public:
        void failNow(const std::string &monitor, const std::string &family,
                const std::string &detail);
        inline bool failed() const { return fail.set; }

        // minterm for (from,to) states under forest's current order
        void fillMinterm(const ForRT &F, MEDDLY::minterm &m, long from,
                long to) const;
        // evaluate a library edge everywhere
        bool libTable(const ForRT &F, const MEDDLY::dd_edge &e, Table &out);
        Val fromRangeval(const MEDDLY::rangeval &rv) const;
        MEDDLY::rangeval toRangeval(FKind k, const Val &v) const;

        // compare library edge with model; records failure
        bool checkEdge(EdgeSlot &s, const std::string &monitor,
                const std::string &family, const char* what);

        // slot management
        EdgeSlot* newEdge(int client, int forest);
        int next_edge_id = 1;
        // operand choice with optional binding (see Step::bind)
        const Step* cur = nullptr;
        int cur_uid = 0;
        int made_in_step = 0;
        int pick_no = 0, fpick_no = 0;
        int cur_bind[6], cur_fbind[4];
        std::vector<Step> resolved;     // the plan with the choices this run made
        size_t pick(const std::vector<size_t> &cands, uint32_t raw);
        size_t pickAny(uint32_t raw);   // among all edge slots
        int freshEdgeId();
        std::string fn(int fi) const;               // "F2<MTbool rel red=2>"
        std::string en(const EdgeSlot &e) const;    // "e7@F2"

        void dropEdge(size_t idx);
        std::vector<size_t> edgesWhere(
                const std::function<bool(const EdgeSlot&)> &pred) const;
        int pickForest(uint32_t raw,
                const std::function<bool(const ForRT&)> &pred) const;

        // random function content derived from a step's own seed
        Val randomValue(Rng &R, FKind k, int flavour) const;

    // ---------------- step interpreter ----------------
    public:
        void exec(const Step &s);
        void note(int outcome, uint64_t h = 0, long nodes = -1, long edges = -1, uint64_t shape = 0);
        uint64_t shapeHash(const ForRT &F, const MEDDLY::dd_edge &e);

        // handlers (world_ops.cc)
        void opMkConst(const Step &s);
        void opMkVar(const Step &s);
        void opMkMinterm(const Step &s);
        void opMkColl(const Step &s, bool useMax);
        void opMkGraph(const Step &s);
        void opBinary(const Step &s);
        void opComplement(const Step &s);
        void opCopy(const Step &s);
        void opCopyEdge(const Step &s);
        void opAssign(const Step &s);
        void opRelease(const Step &s);
        void opDrain(const Step &s);
        void opMassCopy(const Step &s);
        void opHoard(const Step &s);
        void opUnhoard(const Step &s);
        void dropHoards();
        void opDetachAttach(const Step &s);
        void opPurge(const Step &s);
        void opRebuild(const Step &s);
        void opCounts(const Step &s);
        void opCardinality(const Step &s);
        void opIterate(const Step &s);
        void opIterOpen(const Step &s);
        void opIterStep(const Step &s);
        void opUnary(const Step &s);
        void opRange(const Step &s);
        void opCross(const Step &s);
        void opImage(const Step &s);
        void opVMMult(const Step &s);
        void opReach(const Step &s);
        void opSatPart(const Step &s);
        void opReorder(const Step &s);
        void opIO(const Step &s);
        void opIORead(const Step &s);
        void opIndexSet(const Step &s);
        void opBigCard(const Step &s);
        void opMisuse(const Step &s);
        void opKillForest(const Step &s);
        void opKillDomain(const Step &s);
        void opNewForest(const Step &s);
        void opRestart(const Step &s);
        bool sameOrder(int fa, int fb) const;
        bool orderChanged(const ForRT &F) const;
        bool checkVisit(const ForRT &F, const MEDDLY::minterm &m,
                const IterSlot::Item &want, size_t pos);
        void stopLibraryAndEdges();

        void finishResult(const Step &s, EdgeSlot* res, const std::string &family);
        void markErrored(int f);

    // ---------------- monitors (audit.cc) ----------------
    public:
        void auditAfterStep(bool force_all);
        void auditI1(bool all);
        void auditI2();
        void auditForestStructure(ForRT &F);        // I3
        void auditRefcounts(ForRT &F);              // I4
        void auditCacheCounts(ForRT &F);            // I5
        void auditDrain(ForRT &F);                  // I6 (caller ensures drained)
        void auditRegistry();                       // I8
        void finalAudit();

    // ---------------- fault state ----------------
    public:
        // consulted by the drop-hit hook
        unsigned cur_drop = 0;
        unsigned cur_dropk = 0;
        unsigned long hit_index = 0;
        bool dropDecision();
};

// active world (for C callbacks)
extern World* g_world;

// seams (seams.cc)
void installSeams(const Config &c);
void removeSeams();
const MEDDLY::memory_manager_style* monitoredStyle(int mm);
void monitorReport(std::string &err);       // fetch & clear monitor error
void monitorCheckAll(std::string &err);     // full scan of live chunks
extern long g_sim_clock;

}

#endif
