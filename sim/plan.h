// Plans: configuration + symbolic steps.  A plan is generated from a seed
// *before* the library is touched and is a pure function of (seed, profile).
// Operand references are raw integers that the interpreter reduces modulo
// the live candidates, so a plan stays executable when steps are deleted.
#ifndef SIM_PLAN_H
#define SIM_PLAN_H

#include "model.h"
#include "prng.h"

#include <string>
#include <vector>
#include <cstdio>

namespace sim {

struct ForSpec {
    int dom = 0;
    int rel = 0;
    int kind = FK_MTB;      // FKind
    int red = 0;            // 0 fully, 1 quasi, 2 identity
    int storage = 3;        // 1 full only, 2 sparse only, 3 either
    int del = 1;            // 0 never, 1 optimistic, 2 pessimistic
    int mm = 1;             // 0 orig grid, 1 array+grid, 2 malloc, 3 heap
    int reorder = 2;        // policies::reordering_type order
    int swap = 0;           // 0 VAR, 1 LEVEL
};

struct Config {
    // compute tables
    int ct_style = 1;       // 0 mono chained, 1 mono unchained, 2 op chained, 3 op unchained
    int ct_stale = 1;       // 0 aggressive, 1 moderate, 2 lazy
    int ct_compress = 1;    // 0 none, 1 type based
    int ct_huge = 0;        // allow huge tables (64-bit handles)
    unsigned long ct_max = 16777216;
    unsigned ct_min = 0;    // knob K1 (0: shipped)
    unsigned handle_start = 0;  // knob K2 (0: shipped)
    int monitor_mm = 1;     // wrap node/CT memory managers with the monitor
    uint64_t fault_seed = 0;
    int nclients = 2;
    std::vector<std::vector<int>> doms;     // sizes per domain
    std::vector<ForSpec> forests;
};

struct Step {
    std::string op;
    int client = 0;
    uint32_t a[6] = {0,0,0,0,0,0};
    uint64_t seed = 0;
    unsigned drop = 0;      // F1: permille of hits dropped inside this step
    unsigned dropk = 0;     // F1 sweep: drop exactly the k-th hit (1-based)
    // Stable naming for minimisation.  uid: position in the plan as generated
    // (kept when other steps are deleted); edges created by a step are named
    // after its uid.  bind[i] / fbind[i]: the edge / forest the i-th operand
    // choice of this step resolved to when the plan was first executed; when
    // present (and still a legal candidate) it overrides the modulo choice, so
    // deleting an unrelated step does not re-route later steps.
    int uid = -1;
    int bind[6] = {0,0,0,0,0,0};
    int fbind[4] = {0,0,0,0};
};

struct Plan {
    std::string prop;       // property profile that generated it
    uint64_t seed = 0;
    Config cfg;
    std::vector<Step> steps;
    // expected outcome when used as a replay file
    std::string expect_class;
    uint64_t expect_hash = 0;
    std::string story;      // human-readable trace, written as # comment lines
    bool nosweep = false;   // this plan is itself a fault-position variant: do not derive variants from it

    bool write(const std::string &path) const;
    bool read(const std::string &path);
    std::string text() const;
    bool parse(const std::string &txt);
};

// Profile-driven generation (gen.cc)
struct GenOptions {
    std::string prop;       // "C01" ... "C20", or "ALL"
    bool thorough = false;
};
void generatePlan(uint64_t seed, const GenOptions &opt, Plan &P);

}

#endif
