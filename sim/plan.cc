#include "plan.h"

#include <sstream>
#include <fstream>
#include <cinttypes>

namespace sim {

std::string Plan::text() const
{
    std::ostringstream o;
    o << "PLAN 1\n";
    o << "prop " << prop << "\n";
    o << "seed " << seed << "\n";
    o << "ct " << cfg.ct_style << " " << cfg.ct_stale << " " << cfg.ct_compress
      << " " << cfg.ct_huge << " " << cfg.ct_max << " " << cfg.ct_min << "\n";
    o << "handles " << cfg.handle_start << "\n";
    o << "monitor " << cfg.monitor_mm << "\n";
    o << "faultseed " << cfg.fault_seed << "\n";
    o << "clients " << cfg.nclients << "\n";
    for (const auto &d : cfg.doms) {
        o << "dom";
        for (int s : d) o << " " << s;
        o << "\n";
    }
    for (const ForSpec &f : cfg.forests) {
        o << "forest " << f.dom << " " << f.rel << " " << f.kind << " "
          << f.red << " " << f.storage << " " << f.del << " " << f.mm << " "
          << f.reorder << " " << f.swap << "\n";
    }
    if (nosweep) o << "opt nosweep\n";
    if (!expect_class.empty()) {
        o << "expect " << expect_hash << " " << expect_class << "\n";
    }
    if (!story.empty()) {
        std::istringstream in(story);
        std::string l;
        while (std::getline(in, l)) o << "# " << l << "\n";
    }
    for (const Step &s : steps) {
        o << "S " << s.op << " " << s.client;
        for (int i = 0; i < 6; i++) o << " " << s.a[i];
        o << " " << s.seed << " " << s.drop << " " << s.dropk << " " << s.uid;
        for (int i = 0; i < 6; i++) o << " " << s.bind[i];
        for (int i = 0; i < 4; i++) o << " " << s.fbind[i];
        o << "\n";
    }
    o << "END\n";
    return o.str();
}

bool Plan::parse(const std::string &txt)
{
    std::istringstream in(txt);
    std::string line;
    cfg = Config();
    cfg.doms.clear();
    cfg.forests.clear();
    steps.clear();
    expect_class.clear();
    expect_hash = 0;
    nosweep = false;
    bool ok = false;
    while (std::getline(in, line)) {
        if (line.empty() || line[0] == '#') continue;
        std::istringstream ls(line);
        std::string key;
        ls >> key;
        if (key == "PLAN") { ok = true; continue; }
        if (key == "END") break;
        if (key == "prop") { ls >> prop; continue; }
        if (key == "seed") { ls >> seed; continue; }
        if (key == "ct") {
            ls >> cfg.ct_style >> cfg.ct_stale >> cfg.ct_compress
               >> cfg.ct_huge >> cfg.ct_max >> cfg.ct_min;
            continue;
        }
        if (key == "handles") { ls >> cfg.handle_start; continue; }
        if (key == "monitor") { ls >> cfg.monitor_mm; continue; }
        if (key == "faultseed") { ls >> cfg.fault_seed; continue; }
        if (key == "clients") { ls >> cfg.nclients; continue; }
        if (key == "dom") {
            std::vector<int> d;
            int s;
            while (ls >> s) d.push_back(s);
            cfg.doms.push_back(d);
            continue;
        }
        if (key == "forest") {
            ForSpec f;
            ls >> f.dom >> f.rel >> f.kind >> f.red >> f.storage >> f.del
               >> f.mm >> f.reorder >> f.swap;
            cfg.forests.push_back(f);
            continue;
        }
        if (key == "opt") { std::string w; ls >> w; if (w == "nosweep") nosweep = true; continue; }
        if (key == "expect") {
            ls >> expect_hash;
            std::getline(ls, expect_class);
            while (!expect_class.empty() && expect_class[0] == ' ')
                expect_class.erase(0, 1);
            continue;
        }
        if (key == "S") {
            Step s;
            ls >> s.op >> s.client;
            for (int i = 0; i < 6; i++) ls >> s.a[i];
            ls >> s.seed >> s.drop >> s.dropk;
            if (ls >> s.uid) {
                for (int i = 0; i < 6; i++) ls >> s.bind[i];
                for (int i = 0; i < 4; i++) ls >> s.fbind[i];
            } else s.uid = -1;
            steps.push_back(s);
            continue;
        }
        // unknown keys are ignored (forward compatibility)
    }
    return ok;
}

bool Plan::write(const std::string &path) const
{
    std::ofstream f(path);
    if (!f) return false;
    f << text();
    return bool(f);
}

bool Plan::read(const std::string &path)
{
    std::ifstream f(path);
    if (!f) return false;
    std::stringstream ss;
    ss << f.rdbuf();
    return parse(ss.str());
}

}
