// Step handlers, part 3: exchange files over the simulated disk (short
// reads / short writes), misuse catalogue, life cycle.
#include "world.h"

#include <cstdio>
#include <cstring>
#include <sstream>
#include <streambuf>

using namespace MEDDLY;

namespace sim {

// ----------------------------------------------------------------------
// Simulated disk transports
// ----------------------------------------------------------------------

// ostream/istream over a string with seed-chosen chunk sizes
class chunk_obuf : public std::streambuf {
        std::string &dst;
        Rng R;
        char buf[64];
    public:
        long flushes = 0;
        chunk_obuf(std::string &d, uint64_t seed) : dst(d), R(seed) { arm(); }
        ~chunk_obuf() { sync(); }
    protected:
        void arm() { size_t n = 1 + size_t(R.below(63)); setp(buf, buf + n); }
        int_type overflow(int_type c) override {
            sync();
            if (c != traits_type::eof()) { *pptr() = char(c); pbump(1); }
            return c == traits_type::eof() ? 0 : c;
        }
        int sync() override {
            dst.append(pbase(), size_t(pptr() - pbase()));
            flushes++;
            arm();
            return 0;
        }
};

class chunk_ibuf : public std::streambuf {
        const std::string &src;
        size_t pos = 0;
        Rng R;
        char buf[72];
    public:
        long refills = 0;
        chunk_ibuf(const std::string &s, uint64_t seed) : src(s), R(seed) {
            setg(buf + 8, buf + 8, buf + 8);
        }
    protected:
        int_type underflow() override {
            if (gptr() < egptr()) return traits_type::to_int_type(*gptr());
            if (pos >= src.size()) return traits_type::eof();
            // keep up to 8 chars of put-back area
            size_t keep = size_t(gptr() - eback());
            if (keep > 8) keep = 8;
            std::memmove(buf + 8 - keep, gptr() - keep, keep);
            size_t n = 1 + size_t(R.below(63));
            if (n > src.size() - pos) n = src.size() - pos;
            std::memcpy(buf + 8, src.data() + pos, n);
            pos += n;
            refills++;
            setg(buf + 8 - keep, buf + 8, buf + 8 + n);
            return traits_type::to_int_type(*gptr());
        }
};

// FILE* over a string through fopencookie, short reads and writes
struct cookie_state {
    std::string* data;
    size_t pos;
    Rng R;
    long shorts;
};
static ssize_t ck_read(void* c, char* b, size_t n)
{
    cookie_state* s = (cookie_state*) c;
    if (s->pos >= s->data->size()) return 0;
    size_t m = n;
    size_t lim = 1 + size_t(s->R.below(48));
    if (m > lim) { m = lim; s->shorts++; }
    if (m > s->data->size() - s->pos) m = s->data->size() - s->pos;
    std::memcpy(b, s->data->data() + s->pos, m);
    s->pos += m;
    return ssize_t(m);
}
// A cookie write function must take everything it is given: stdio treats a
// short count from it as an error and drops the rest (glibc _IO_cookie_write),
// unlike write(2) on a real file, which stdio retries.  The legal variation
// on this side is therefore the size of the stdio buffer (how the byte stream
// is cut into write calls), chosen per file from the seed.
static ssize_t ck_write(void* c, const char* b, size_t n)
{
    cookie_state* s = (cookie_state*) c;
    s->data->append(b, n);
    s->shorts++;
    return ssize_t(n);
}

// input that is cut exactly once, at byte offset `cut` (fault-position sweep)
class split_ibuf : public std::streambuf {
        const std::string &src;
        size_t cut;
        int phase = 0;
        char buf[8 + 4096];
    public:
        split_ibuf(const std::string &s, size_t c) : src(s), cut(c) { setg(buf + 8, buf + 8, buf + 8); }
    protected:
        int_type underflow() override {
            if (gptr() < egptr()) return traits_type::to_int_type(*gptr());
            size_t from, to;
            if (phase == 0) { from = 0; to = cut; }
            else { from = cut + size_t(phase - 1) * 4096; to = std::min(src.size(), from + 4096); }
            if (from >= src.size() || from >= to) { if (phase == 0) { phase = 1; return underflow(); } return traits_type::eof(); }
            size_t keep = size_t(gptr() - eback()); if (keep > 8) keep = 8;
            std::memmove(buf + 8 - keep, gptr() - keep, keep);
            size_t n = std::min<size_t>(to - from, 4096);
            std::memcpy(buf + 8, src.data() + from, n);
            if (phase == 0 && n < cut) cut = n;     // (files longer than the buffer: first piece is the buffer)
            phase++;
            setg(buf + 8 - keep, buf + 8, buf + 8 + n);
            return traits_type::to_int_type(*gptr());
        }
};
struct split_cookie { const std::string* data; size_t pos; size_t cut; };
static ssize_t sc_read(void* c, char* b, size_t n)
{
    split_cookie* s = (split_cookie*) c;
    if (s->pos >= s->data->size()) return 0;
    size_t m = std::min(n, s->data->size() - s->pos);
    if (s->pos < s->cut) m = std::min(m, s->cut - s->pos);     // a short read that ends exactly at the cut
    std::memcpy(b, s->data->data() + s->pos, m);
    s->pos += m;
    return ssize_t(m);
}

// ----------------------------------------------------------------------
// io: write some roots of forest F, read them back.
// a[0] forest, a[1] number of roots, a[2] transport (0 stream, 1 FILE),
// a[3] target: 0 same forest, 1 another forest of the same kind,
// 2 forest created from the file (fresh domain copy not needed: same D)
// ----------------------------------------------------------------------
void World::opIO(const Step &s)
{
    cur_family = "io";
    int fi = pickForest(s.a[0], [&](const ForRT &F) {
        for (const EdgeSlot* e : edges) if (e->forest >= 0 && &forests[e->forest] == &F) return true;
        return false;
    });
    if (fi < 0) { note(OC_SKIP); return; }
    ForRT &F = forests[fi];
    std::vector<size_t> ce = edgesWhere([&](const EdgeSlot &e) { return e.forest == fi; });
    Rng R(s.seed);
    const unsigned nroots = 1 + s.a[1] % 5;
    std::vector<EdgeSlot*> roots;
    for (unsigned i = 0; i < nroots; i++) roots.push_back(edges[pick(ce, uint32_t(R.below(ce.size())))]);   // repeats allowed
    const unsigned transport = s.a[2] % 2;
    desc << "write " << nroots << " roots of " << fn(fi) << " via " << (transport ? "FILE*" : "iostream") << ", read back target " << s.a[3] % 3;
    if (tracing) { fprintf(stderr, "   doing: %s\n", desc.str().c_str()); fflush(stderr); }
    std::string disk;
    long shorts = 0;
    try {
        if (transport == 0) {
            chunk_obuf ob(disk, s.seed ^ 0x11);
            std::ostream os(&ob);
            {
                ostream_output out(os);
                mdd_writer W(out, F.f);
                for (EdgeSlot* r : roots) W.writeRootEdge(*r->e);
                W.finish();
                out.flush();
            }
            os.flush();
            shorts += ob.flushes;
        } else {
            cookie_state cs { &disk, 0, Rng(s.seed ^ 0x22), 0 };
            cookie_io_functions_t fn = { nullptr, ck_write, nullptr, nullptr };
            FILE* fp = fopencookie(&cs, "w", fn);
            static char wbuf[256];
            {
                Rng B(s.seed ^ 0x55);
                switch (B.below(4)) {
                    case 0: setvbuf(fp, nullptr, _IONBF, 0); break;
                    case 1: setvbuf(fp, wbuf, _IOLBF, 1 + size_t(B.below(255))); break;
                    case 2: setvbuf(fp, wbuf, _IOFBF, 1 + size_t(B.below(255))); break;
                    default: break;     // stdio default
                }
            }
            {
                FILE_output out(fp);
                mdd_writer W(out, F.f);
                for (EdgeSlot* r : roots) W.writeRootEdge(*r->e);
                W.finish();
                out.flush();
            }
            fclose(fp);
            shorts += cs.shorts;
        }
    }
    catch (MEDDLY::error &e) {
        markErrored(fi);
        failNow("O2", cur_family, std::string("exchange-file writer threw ") + e.getName());
        return;
    }
    stats.fired["short_writes"] += shorts;
    // target forest
    int ti = fi;
    unsigned target = s.a[3] % 3;
    // KF-C14-1: the file does not record the reduction rule; a forest created
    // from it is identity-reduced for relations, which reads the long edges of
    // a fully-reduced relation forest as identities (probe plans only)
    if (target == 2 && F.spec.rel && F.spec.red == 0 && s.a[5] != 999) target = 0;
    if (target == 1) {
        ti = pickForest(s.a[4], [&](const ForRT &T) {
            return &T != &F && T.spec.dom == F.spec.dom && T.spec.rel == F.spec.rel
                && T.kind() == F.kind() && T.spec.red == F.spec.red && T.lvl2var == F.lvl2var;
        });
        if (ti < 0) ti = fi;
    }
    ForRT &T = forests[ti];
    long rshorts = 0;
    std::vector<dd_edge> got;
    forest* created = nullptr;
    try {
        mdd_reader* Rd = nullptr;
        chunk_ibuf ib(disk, s.seed ^ 0x33);
        std::istream is(&ib);
        cookie_state cs { &disk, 0, Rng(s.seed ^ 0x44), 0 };
        cookie_io_functions_t fn = { ck_read, nullptr, nullptr, nullptr };
        FILE* fp = nullptr;
        input* in = nullptr;
        if (transport == 0) in = new istream_input(is);
        else { fp = fopencookie(&cs, "r", fn); in = new FILE_input(fp); }
        try {
            if (target == 2 && F.lvl2var == forests[fi].lvl2var && !orderChanged(F)) {
                Rd = new mdd_reader(*in, doms[F.spec.dom].d);
                created = Rd->getForest();
            } else {
                Rd = new mdd_reader(*in, T.f);
            }
            if (Rd->numRoots() != nroots) {
                std::ostringstream o;
                o << "file written with " << nroots << " roots is read back with " << Rd->numRoots();
                failNow("F1", cur_family, o.str());
            }
            for (unsigned i = 0; i < nroots && !failed(); i++) {
                dd_edge e(created ? created : T.f);
                Rd->readRootEdge(e);
                got.push_back(e);
            }
        }
        catch (...) {
            delete Rd; delete in; if (fp) fclose(fp);
            throw;
        }
        delete Rd;
        delete in;
        if (fp) fclose(fp);
        rshorts = ib.refills + cs.shorts;
    }
    catch (MEDDLY::error &e) {
        markErrored(fi); markErrored(ti);
        std::ostringstream o;
        o << "exchange-file reader threw " << e.getName() << " (" << e.getFile() << ":" << e.getLine()
          << ") on a file the writer produced (" << fkName(F.kind()) << (F.spec.rel ? " rel" : " set")
          << ", transport " << transport << ", target " << target << ")";
        failNow("O2", cur_family, o.str());
        return;
    }
    stats.fired["short_reads"] += rshorts;
    if (failed()) return;
    stats.opcount[std::string("io:") + (transport ? "FILE" : "stream") + ":target" + std::to_string(target)]++;
    // compare
    ForRT tmp = T;
    if (created) {
        tmp.f = created;
        tmp.spec = F.spec;
        tmp.lvl2var = F.lvl2var;
        // the file records set/relation, range and labeling; the reduction
        // rule and the policies of a forest created from it are the defaults
        tmp.spec.red = created->isFullyReduced() ? 0 : (created->isQuasiReduced() ? 1 : 2);
        tmp.spec.storage = 3; tmp.spec.del = 1;
        if (created->isForRelations() != (F.spec.rel != 0) || created->getRangeType() != F.f->getRangeType()
            || created->getEdgeLabeling() != F.f->getEdgeLabeling()) {
            std::ostringstream o;
            o << "forest created from the file differs in kind from the writing forest: relations "
              << created->isForRelations() << "/" << (F.spec.rel != 0) << ", range " << int(created->getRangeType())
              << "/" << int(F.f->getRangeType()) << ", labeling " << int(created->getEdgeLabeling()) << "/"
              << int(F.f->getEdgeLabeling()) << ", reduction " << int(created->getReductionRule()) << "/"
              << int(F.f->getReductionRule());
            failNow("F1", cur_family, o.str());
        }
    }
    for (unsigned i = 0; i < nroots && !failed(); i++) {
        if (!roots[i]->oracle) continue;
        if (!created && ti == fi) {
            // same forest: identical edge (exact kinds)
            if (roots[i]->tab.exact() && got[i] != *roots[i]->e) {
                std::ostringstream o;
                o << "root " << i << " read back into the writing forest is a different edge";
                failNow("F1", cur_family, o.str());
                break;
            }
        }
        Table t;
        libTable(tmp, got[i], t);
        if (!t.close(roots[i]->tab)) {
            std::ostringstream o;
            o << "root " << i << " of " << nroots << " read back (" << fkName(F.kind())
              << (F.spec.rel ? " rel" : " set") << ", target " << target << ") denotes a different function";
            failNow("F1", cur_family, o.str());
            break;
        }
        if (F.kind() != FK_MTR && F.kind() != FK_EVT && !t.same(roots[i]->tab)) {
            failNow("F1", cur_family, "exact-valued root read back inexactly");
            break;
        }
    }
    // Fault-position sweep (one file in four): read the same file again with
    // the input cut once at EVERY byte offset (both transports alternate); the
    // reader must deliver the identical edges whatever the cut.
    if (!failed() && !created && (s.a[5] % 4 == 0) && disk.size() < 6000) {
        size_t cuts = 0;
        for (size_t cut = 1; cut < disk.size() && !failed(); cut++) {
            try {
                std::vector<dd_edge> again;
                if (cut & 1) {
                    split_ibuf sb(disk, cut);
                    std::istream is2(&sb);
                    istream_input in2(is2);
                    mdd_reader Rd2(in2, T.f);
                    for (unsigned i = 0; i < nroots; i++) { dd_edge e(T.f); Rd2.readRootEdge(e); again.push_back(e); }
                } else {
                    split_cookie sc { &disk, 0, cut };
                    cookie_io_functions_t fn2 = { sc_read, nullptr, nullptr, nullptr };
                    FILE* fp2 = fopencookie(&sc, "r", fn2);
                    {
                        FILE_input in2(fp2);
                        mdd_reader Rd2(in2, T.f);
                        for (unsigned i = 0; i < nroots; i++) { dd_edge e(T.f); Rd2.readRootEdge(e); again.push_back(e); }
                    }
                    fclose(fp2);
                }
                for (unsigned i = 0; i < nroots; i++) {
                    if (again[i] != got[i]) {
                        std::ostringstream o;
                        o << "root " << i << " differs when the input is cut at byte " << cut << " of " << disk.size()
                          << " (" << ((cut & 1) ? "iostream" : "FILE*") << ")";
                        failNow("F1", cur_family, o.str());
                        break;
                    }
                }
            }
            catch (MEDDLY::error &e) {
                std::ostringstream o;
                o << "reader threw " << e.getName() << " when the input is cut at byte " << cut << " of " << disk.size()
                  << " (" << ((cut & 1) ? "iostream" : "FILE*") << ")";
                failNow("O2", cur_family, o.str());
            }
            cuts++;
        }
        stats.fired["sweep_io_cut_positions"] += long(cuts);
    }
    got.clear();
    // the file stays on the simulated disk (half of the files): a later
    // `ioread` step reads it again, possibly after the writing forest was
    // destroyed and re-created or after cleanup()/initialize() - the only
    // state that survives a restart
    if (!failed() && (s.a[5] % 2 == 1 || s.a[5] % 4 == 2)) {
        FileSlot* fs = new FileSlot;
        fs->bytes = disk;
        fs->kind = F.spec.kind; fs->rel = F.spec.rel; fs->red = F.spec.red; fs->dom = F.spec.dom;
        fs->sizes = doms[F.spec.dom].m.sizes;
        fs->lvl2var = F.lvl2var;
        fs->epoch = lib_epoch; fs->writer_fid = F.fid; fs->writer_slot = fi;
        for (EdgeSlot* r : roots) { fs->roots.push_back(r->tab); fs->oracle.push_back(r->oracle); }
        if (files.size() < 6) files.push_back(fs);
        else { size_t k = s.a[4] % files.size(); delete files[k]; files[k] = fs; }
        stats.fired["file_kept_on_disk"]++;
    }
    if (created) {
        // reader-created forest: audit, then destroy it
        if (!failed()) {
            ForRT cf = tmp;
            cf.alive = true;
            auditForestStructure(cf);
            if (!failed()) auditRefcounts(cf);
        }
        forest::destroy(created);
    } else if (!failed() && ti != fi) {
        // keep the read edges?  no: released here; the receiving forest is
        // audited by the per-step monitors (canonical, exact counts)
    }
    note(OC_OK, mix64(disk.size(), nroots));
}

// ----------------------------------------------------------------------
// ioread: read a file that an earlier `io` step left on the simulated disk.
// a[0] file, a[1] target mode (0,1: a live forest of the same kind, rule,
// domain sizes and variable order - the writing forest itself, its
// re-creation after a destruction or a restart, or a sibling; 2: a forest
// created from the file), a[2] transport, a[3] forest choice, a[4] how many
// of the edges read are kept by the client afterwards
// ----------------------------------------------------------------------
void World::opIORead(const Step &s)
{
    cur_family = "io";
    if (files.empty()) { note(OC_SKIP); return; }
    FileSlot &fs = *files[s.a[0] % files.size()];
    auto defaultOrder = [&]() {
        for (size_t k = 1; k < fs.lvl2var.size(); k++) if (fs.lvl2var[k] != int(k)) return false;
        return true;
    };
    unsigned mode = s.a[1] % 3;
    int ti = pickForest(s.a[3], [&](const ForRT &T) {
        return T.spec.rel == fs.rel && T.spec.kind == fs.kind && T.spec.red == fs.red
            && doms[T.spec.dom].m.sizes == fs.sizes && T.lvl2var == fs.lvl2var;
    });
    int di = -1;
    for (size_t d = 0; d < doms.size(); d++) if (doms[d].alive && doms[d].m.sizes == fs.sizes) { di = int(d); break; }
    const bool canCreate = di >= 0 && defaultOrder() && !(fs.rel && fs.red == 0);   // KF-C14-1
    if (mode == 2 && !canCreate) mode = 0;
    if (mode != 2 && ti < 0) { if (canCreate) mode = 2; else { note(OC_SKIP); return; } }
    const unsigned transport = s.a[2] % 2;
    const unsigned nroots = unsigned(fs.roots.size());
    desc << "read the " << nroots << "-root file written earlier by a " << fkName(FKind(fs.kind)) << (fs.rel ? " rel" : " set")
         << " forest via " << (transport ? "FILE*" : "iostream") << " into "
         << (mode == 2 ? std::string("a forest created from the file") : fn(ti));
    if (tracing) { fprintf(stderr, "   doing: %s\n", desc.str().c_str()); fflush(stderr); }
    std::vector<dd_edge> got;
    forest* created = nullptr;
    long rshorts = 0;
    try {
        mdd_reader* Rd = nullptr;
        chunk_ibuf ib(fs.bytes, s.seed ^ 0x33);
        std::istream is(&ib);
        cookie_state cs { &fs.bytes, 0, Rng(s.seed ^ 0x44), 0 };
        cookie_io_functions_t fn = { ck_read, nullptr, nullptr, nullptr };
        FILE* fp = nullptr;
        input* in = nullptr;
        if (transport == 0) in = new istream_input(is);
        else { fp = fopencookie(&cs, "r", fn); in = new FILE_input(fp); }
        try {
            if (mode == 2) { Rd = new mdd_reader(*in, doms[di].d); created = Rd->getForest(); }
            else Rd = new mdd_reader(*in, forests[ti].f);
            if (Rd->numRoots() != nroots) {
                std::ostringstream o;
                o << "file written with " << nroots << " roots is read later with " << Rd->numRoots();
                failNow("F1", cur_family, o.str());
            }
            for (unsigned i = 0; i < nroots && !failed(); i++) {
                dd_edge e(created ? created : forests[ti].f);
                Rd->readRootEdge(e);
                got.push_back(e);
            }
        }
        catch (...) { delete Rd; delete in; if (fp) fclose(fp); throw; }
        delete Rd; delete in; if (fp) fclose(fp);
        rshorts = ib.refills + cs.shorts;
    }
    catch (MEDDLY::error &e) {
        if (ti >= 0 && mode != 2) markErrored(ti);
        std::ostringstream o;
        o << "exchange-file reader threw " << e.getName() << " (" << e.getFile() << ":" << e.getLine()
          << ") on a file the writer produced earlier (" << fkName(FKind(fs.kind)) << (fs.rel ? " rel" : " set")
          << ", transport " << transport << ", mode " << mode << ")";
        failNow("O2", cur_family, o.str());
        return;
    }
    stats.fired["short_reads"] += rshorts;
    stats.fired["file_read_later"]++;
    if (fs.epoch != lib_epoch) stats.fired["file_read_after_library_restart"]++;
    else if (fs.writer_slot >= 0 && (!forests[fs.writer_slot].alive || forests[fs.writer_slot].fid != fs.writer_fid))
        stats.fired["file_read_after_writer_forest_destroyed"]++;
    if (failed()) return;
    stats.opcount[std::string("ioread:") + (transport ? "FILE" : "stream") + ":mode" + std::to_string(mode)]++;
    ForRT tmp;
    if (created) {
        tmp.spec.dom = di; tmp.spec.rel = fs.rel; tmp.spec.kind = fs.kind;
        tmp.f = created; tmp.alive = true; tmp.lvl2var = fs.lvl2var;
        tmp.spec.red = created->isFullyReduced() ? 0 : (created->isQuasiReduced() ? 1 : 2);
        tmp.spec.storage = 3; tmp.spec.del = 1;
        if (created->isForRelations() != (fs.rel != 0)) failNow("F1", cur_family, "forest created from the file differs in shape from the writing forest");
    } else tmp = forests[ti];
    const bool exactKind = fs.kind != FK_MTR && fs.kind != FK_EVT;
    for (unsigned i = 0; i < nroots && !failed(); i++) {
        if (!fs.oracle[i]) continue;
        Table t;
        libTable(tmp, got[i], t);
        if (!t.close(fs.roots[i])) {
            std::ostringstream o;
            o << "root " << i << " of " << nroots << " read later (" << fkName(FKind(fs.kind))
              << (fs.rel ? " rel" : " set") << ", mode " << mode << ") denotes a different function";
            failNow("F1", cur_family, o.str());
            break;
        }
        if (exactKind && !t.same(fs.roots[i])) { failNow("F1", cur_family, "exact-valued root read later inexactly"); break; }
        // repeated roots of the file are one edge
        for (unsigned j = 0; j < i && exactKind; j++) {
            if (fs.oracle[j] && fs.roots[j].same(fs.roots[i]) && got[j] != got[i]) {
                failNow("F1", cur_family, "two roots of the file denoting one function are read as different edges");
                break;
            }
        }
    }
    if (created) {
        got.clear();
        if (!failed()) {
            ForRT cf = tmp;
            auditForestStructure(cf);
            if (!failed()) auditRefcounts(cf);
        }
        forest::destroy(created);
    } else if (!failed() && exactKind) {
        // the client keeps some of the edges: from now on they are held edges
        // like any other (I1 at every pass, I2 against every other edge of
        // the forest denoting the same function, reference recounts)
        unsigned keep = s.a[4] % 3;
        for (unsigned i = 0; i < nroots && keep; i++) {
            if (!fs.oracle[i]) continue;
            EdgeSlot* res = newEdge(s.client, ti);
            *res->e = got[i];
            res->tab = fs.roots[i];
            res->oracle = true;
            keep--;
        }
    }
    got.clear();
    note(OC_OK, mix64(fs.bytes.size(), nroots));
}

bool World::orderChanged(const ForRT &F) const
{
    for (size_t k = 1; k < F.lvl2var.size(); k++) if (F.lvl2var[k] != int(k)) return true;
    return false;
}

// ----------------------------------------------------------------------
// misuse: a[0] case
// ----------------------------------------------------------------------
void World::opMisuse(const Step &s)
{
    cur_family = "misuse";
    const unsigned which = s.a[0] % 11 < 8 ? s.a[0] % 11 : 8 + (s.a[0] % 11 - 8) % 2;
    desc << "misuse case " << which;
    if (tracing) { fprintf(stderr, "   doing: %s\n", desc.str().c_str()); fflush(stderr); }
    Rng R(s.seed);
    auto liveEdge = [&](const std::function<bool(const ForRT&)> &pred, uint32_t raw) -> EdgeSlot* {
        std::vector<size_t> c = edgesWhere([&](const EdgeSlot &e) {
            return e.forest >= 0 && forests[e.forest].alive && pred(forests[e.forest]);
        });
        if (c.empty()) return nullptr;
        return edges[pick(c, raw)];
    };
    bool threw = false;
    error::code code = error::code(0);
    std::string what;
    std::vector<error::code> accept;
    int f1 = -1, f2 = -1, f3 = -1;
    try {
        switch (which) {
            case 0: {   // operands from different domains
                EdgeSlot* A = liveEdge([](const ForRT &F) { return F.kind() == FK_MTB; }, s.a[1]);
                if (!A) { note(OC_SKIP); return; }
                EdgeSlot* B = liveEdge([&](const ForRT &F) {
                    return F.kind() == FK_MTB && F.spec.dom != forests[A->forest].spec.dom
                        && F.spec.rel == forests[A->forest].spec.rel; }, s.a[2]);
                if (!B) { note(OC_SKIP); return; }
                what = "UNION of operands from different domains";
                accept = { error::DOMAIN_MISMATCH };
                f1 = A->forest; f2 = B->forest;
                dd_edge r(forests[A->forest].f);
                apply(UNION, *A->e, *B->e, r);
                break;
            }
            case 1: {   // set/relation mismatch
                EdgeSlot* A = liveEdge([](const ForRT &F) { return F.kind() == FK_MTB && !F.spec.rel; }, s.a[1]);
                if (!A) { note(OC_SKIP); return; }
                EdgeSlot* B = liveEdge([&](const ForRT &F) {
                    return F.kind() == FK_MTB && F.spec.rel && F.spec.dom == forests[A->forest].spec.dom; }, s.a[2]);
                if (!B) { note(OC_SKIP); return; }
                what = "INTERSECTION of a set with a relation";
                accept = { error::TYPE_MISMATCH };
                f1 = A->forest; f2 = B->forest;
                dd_edge r(forests[A->forest].f);
                apply(INTERSECTION, *A->e, *B->e, r);
                break;
            }
            case 2: {   // range-type mismatch
                EdgeSlot* A = liveEdge([](const ForRT &F) { return F.kind() == FK_MTI; }, s.a[1]);
                if (!A) { note(OC_SKIP); return; }
                EdgeSlot* B = liveEdge([&](const ForRT &F) {
                    return F.kind() == FK_MTR && F.spec.rel == forests[A->forest].spec.rel
                        && F.spec.dom == forests[A->forest].spec.dom; }, s.a[2]);
                if (!B) { note(OC_SKIP); return; }
                what = "PLUS of an integer and a real function";
                accept = { error::TYPE_MISMATCH };
                f1 = A->forest; f2 = B->forest;
                dd_edge r(forests[A->forest].f);
                apply(PLUS, *A->e, *B->e, r);
                break;
            }
            case 3: {   // value that does not fit a terminal
                int fi = pickForest(s.a[1], [](const ForRT &F) { return F.kind() == FK_MTI; });
                if (fi < 0) { note(OC_SKIP); return; }
                what = "integer constant outside the terminal range";
                accept = { error::VALUE_OVERFLOW };
                f1 = fi;
                dd_edge r(forests[fi].f);
                // the largest and smallest terminals are accepted and exact ...
                {
                    const long edge[2] = { (1L << 30) - 1, -(1L << 30) };
                    for (long v : edge) {
                        dd_edge ok(forests[fi].f);
                        forests[fi].f->createConstant(rangeval(v), ok);
                        minterm m(forests[fi].f);
                        fillMinterm(forests[fi], m, 0, 0);
                        rangeval rv; ok.evaluate(m, rv);
                        if (long(rv) != v) {
                            std::ostringstream o; o << "constant " << v << " (a legal terminal) evaluates to " << long(rv);
                            failNow("I1", "construct", o.str());
                            return;
                        }
                    }
                }
                // ... and so is an arithmetic result that leaves the range, by a
                // little or by so much that its low 32 bits look legal again
                if (s.a[4] % 2 == 1) {
                    static const long pairs[][2] = {
                        {65536, 65536}, {1L << 20, 1L << 13}, {46341, 46341}, {40000, 40000}, {-65536, 65536},
                        {3L << 15, 1L << 17}, {(1L << 30) - 1, 4}, {-(1L << 30), 8}, {1L << 16, -(1L << 16)}, {92682, 46341},
                    };
                    const long* pr = pairs[s.a[2] % 10];
                    dd_edge x(forests[fi].f), y(forests[fi].f);
                    forests[fi].f->createConstant(rangeval(pr[0]), x);
                    forests[fi].f->createConstant(rangeval(pr[1]), y);
                    // the factors vary over the domain where there is a live edge to add (0 at most points)
                    what = "MULTIPLY whose product " + std::to_string(pr[0]) + " * " + std::to_string(pr[1]) + " lies outside the terminal range";
                    stats.opcount["misuse:product_overflow"]++;
                    apply(MULTIPLY, x, y, r);
                    break;
                }
                // ... one step beyond them, and far beyond, is refused
                long big;
                switch (s.a[2] % 4) {
                    case 0:  big = (1L << 31) + long(s.a[3] % 1000); break;
                    case 1:  big = -(1L << 31) - 1 - long(s.a[3] % 1000); break;
                    case 2:  big = (1L << 30); break;
                    default: big = -(1L << 30) - 1; break;
                }
                forests[fi].f->createConstant(rangeval(big), r);
                break;
            }
            case 4: {   // division by zero, divisor zero at one seeded point
                EdgeSlot* A = liveEdge([](const ForRT &F) { return F.kind() == FK_MTI; }, s.a[1]);
                if (!A || !A->oracle) { note(OC_SKIP); return; }
                ForRT &F = forests[A->forest];
                const Dom &D = doms[F.spec.dom].m;
                // divisor: 1 everywhere, 0 at one point
                const long total = F.spec.rel ? D.N * D.N : D.N;
                const long z = long(R.below(uint64_t(total)));
                dd_edge dv(F.f), one(F.f);
                F.f->createConstant(rangeval(1L), dv);
                minterm m(F.f);
                fillMinterm(F, m, F.spec.rel ? z / D.N : z, F.spec.rel ? z % D.N : 0);
                m.setValue(rangeval(1L));
                m.buildFunction(rangeval(0L), one);
                apply(MINUS, dv, one, dv);
                what = (s.a[2] & 1) ? "MODULO by a function that is zero at one point"
                                    : "DIVIDE by a function that is zero at one point";
                accept = { error::DIVIDE_BY_ZERO };
                f1 = A->forest;
                stats.fired["error_in_recursion"]++;
                // dividend: non-zero everywhere, so the zero divisor is met
                dd_edge num(F.f), r(F.f);
                F.f->createConstant(rangeval(long(7 + s.a[3] % 5)), num);
                apply(PLUS, num, *A->e, num);
                apply(MULTIPLY, num, num, num);     // (7+a)^2 ...
                F.f->createConstant(rangeval(1L), r);
                apply(PLUS, num, r, num);           // ... +1 > 0
                // KF-C05-4 (probe plans only): a dividend that is 0 where the
                // divisor is 0 is short-circuited to 0 without any error
                if (s.a[5] == 999) { F.f->createConstant(rangeval(0L), num); what = "0 divided by a function that is zero at one point"; }
                // Fault-position sweep (one call in three): the zero of the
                // divisor is placed at EVERY point of the domain in turn (all
                // of them up to 64 points, 48 seeded ones beyond): the error
                // must be raised wherever in the traversal the zero is met.
                if (s.a[5] != 999 && (s.a[4] % 3 == 0)) {
                    long swept = 0;
                    for (long k = 0; k < total && swept < 64; k++) {
                        const long zz = (total <= 64) ? k : long(R.below(uint64_t(total)));
                        dd_edge dz(F.f), oz(F.f), rz(F.f);
                        F.f->createConstant(rangeval(1L), dz);
                        minterm mz(F.f);
                        fillMinterm(F, mz, F.spec.rel ? zz / D.N : zz, F.spec.rel ? zz % D.N : 0);
                        mz.setValue(rangeval(1L));
                        mz.buildFunction(rangeval(0L), oz);
                        apply(MINUS, dz, oz, dz);
                        bool thrown = false;
                        try { if (s.a[2] & 1) apply(MODULO, num, dz, rz); else apply(DIVIDE, num, dz, rz); }
                        catch (MEDDLY::error &e) {
                            thrown = true;
                            if (e.getCode() != error::DIVIDE_BY_ZERO) {
                                std::ostringstream o; o << what << " (zero at point " << zz << "): raised " << e.getName() << " instead of DIVIDE_BY_ZERO";
                                markErrored(f1);
                                failNow("E1", cur_family, o.str());
                                return;
                            }
                        }
                        if (!thrown) {
                            std::ostringstream o; o << what << " (zero at point " << zz << " of " << total << "): no error was raised";
                            markErrored(f1);
                            failNow("E1", cur_family, o.str());
                            return;
                        }
                        swept++;
                        if (total > 64 && swept >= 48) break;
                    }
                    stats.fired["sweep_zero_divisor_positions"] += swept;
                }
                if (s.a[2] & 1) apply(MODULO, num, dv, r);
                else            apply(DIVIDE, num, dv, r);
                break;
            }
            case 5: {   // result edge attached to the wrong forest
                EdgeSlot* A = liveEdge([](const ForRT &F) { return F.kind() == FK_MTB; }, s.a[1]);
                if (!A) { note(OC_SKIP); return; }
                if (s.a[5] != 999) {
                    // through apply(): a result edge in a forest whose kind
                    // cannot hold the result (set vs relation) is refused
                    int wf = pickForest(s.a[2], [&](const ForRT &F) {
                        return F.spec.dom == forests[A->forest].spec.dom && F.spec.rel != forests[A->forest].spec.rel; });
                    if (wf < 0) { note(OC_SKIP); return; }
                    what = "UNION with the result edge attached to a forest of the other shape (set/relation)";
                    accept = { error::TYPE_MISMATCH, error::NOT_IMPLEMENTED };
                    f1 = A->forest; f2 = wf;
                    dd_edge r(forests[wf].f);
                    apply(UNION, *A->e, *A->e, r);
                    break;
                }
                // KF-C16-1 (probe plans only): a pre-built operation's
                // compute() given a result edge attached to another forest
                int wf = pickForest(s.a[2], [&](const ForRT &F) {
                    return F.kind() == FK_MTB && &F != &forests[A->forest]
                        && F.spec.dom == forests[A->forest].spec.dom && F.spec.rel == forests[A->forest].spec.rel; });
                if (wf < 0) { note(OC_SKIP); return; }
                binary_operation* op = build(UNION, forests[A->forest].f, forests[A->forest].f, forests[A->forest].f);
                what = "pre-built operation given a result edge attached to another forest";
                accept = { error::FOREST_MISMATCH };
                f1 = A->forest; f2 = wf;
                dd_edge r(forests[wf].f);
                op->compute(*A->e, *A->e, r);
                break;
            }
            case 6: {   // detached edge used as an operand
                EdgeSlot* A = liveEdge([](const ForRT &F) { return F.kind() == FK_MTB; }, s.a[1]);
                if (!A) { note(OC_SKIP); return; }
                dd_edge det(*A->e);
                det.detach();
                what = "operation on a detached edge";
                accept = { error::FOREST_MISMATCH, error::DOMAIN_MISMATCH, error::TYPE_MISMATCH,
                           error::INVALID_ARGUMENT, error::UNKNOWN_OPERATION, error::NOT_IMPLEMENTED,
                           error::INVALID_OPERATION };
                f1 = A->forest;
                dd_edge r(forests[A->forest].f);
                apply(UNION, det, *A->e, r);
                break;
            }
            case 8: {   // catalogue x mismatch: any binary / image operation, operand or result from another domain or of the other shape
                typedef binary_factory& (*bf)();
                static const struct { const char* name; bf f; bool image; } cat[] = {
                    {"UNION", UNION, false}, {"INTERSECTION", INTERSECTION, false}, {"DIFFERENCE", DIFFERENCE, false},
                    {"PLUS", PLUS, false}, {"MINUS", MINUS, false}, {"MULTIPLY", MULTIPLY, false}, {"DIVIDE", DIVIDE, false},
                    {"MODULO", MODULO, false}, {"MAXIMUM", MAXIMUM, false}, {"MINIMUM", MINIMUM, false}, {"DIST_MIN", DIST_MIN, false},
                    {"EQUAL", EQUAL, false}, {"NOT_EQUAL", NOT_EQUAL, false}, {"LESS_THAN", LESS_THAN, false},
                    {"LESS_THAN_EQUAL", LESS_THAN_EQUAL, false}, {"GREATER_THAN", GREATER_THAN, false},
                    {"GREATER_THAN_EQUAL", GREATER_THAN_EQUAL, false},
                    {"PRE_IMAGE", PRE_IMAGE, true}, {"POST_IMAGE", POST_IMAGE, true},
                    {"REACHABLE_TRAD_FS", nullptr, true}, {"REACHABLE_TRAD_NOFS", nullptr, true}, {"REACHABLE_SATUR", nullptr, true},
                    {"VM_MULTIPLY", VM_MULTIPLY, true}, {"MV_MULTIPLY", MV_MULTIPLY, true}, {"CROSS", CROSS, false},
                };
                const unsigned nc = sizeof(cat) / sizeof(cat[0]);
                const auto &op = cat[s.a[1] % nc];
                const unsigned way = s.a[2] % 4;
                EdgeSlot* A = liveEdge([&](const ForRT &F) { return (!op.image && strcmp(op.name, "CROSS")) || !F.spec.rel; }, s.a[3]);
                if (!A) { note(OC_SKIP); return; }
                const ForRT &FA = forests[A->forest];
                // the well-formed second operand / result forest for this operation ...
                const int relB = op.image ? 1 : FA.spec.rel;
                const int relR = !strcmp(op.name, "CROSS") ? 1 : FA.spec.rel;
                // ... and the one thing that is wrong with this call
                EdgeSlot* B = liveEdge([&](const ForRT &F) {
                    if (way == 0) return F.spec.dom != FA.spec.dom && F.spec.rel == relB;
                    if (way == 2) return F.spec.dom == FA.spec.dom && F.spec.rel != relB;
                    return F.spec.dom == FA.spec.dom && F.spec.rel == relB && (op.image || F.kind() == FA.kind());
                }, s.a[4]);
                if (!B) { note(OC_SKIP); return; }
                int rf = pickForest(s.a[5] == 999 ? 0 : s.a[5], [&](const ForRT &F) {
                    if (way == 1) return F.spec.dom != FA.spec.dom && F.spec.rel == relR;
                    if (way == 3) return F.spec.dom == FA.spec.dom && F.spec.rel != relR;
                    return F.spec.dom == FA.spec.dom && F.spec.rel == relR && F.kind() == FA.kind();
                });
                if (rf < 0) { note(OC_SKIP); return; }
                static const char* ways[] = { "second operand from another domain", "result forest over another domain",
                                              "second operand of the other shape (set/relation)", "result forest of the other shape (set/relation)" };
                what = std::string(op.name) + " with " + ways[way];
                desc << ": " << what << " (" << fn(A->forest) << ", " << fn(B->forest) << " -> " << fn(rf) << ")";
                if (tracing) { fprintf(stderr, "   doing: %s\n", desc.str().c_str()); fflush(stderr); }
                accept = { error::DOMAIN_MISMATCH, error::TYPE_MISMATCH, error::FOREST_MISMATCH, error::NOT_IMPLEMENTED,
                           error::INVALID_OPERATION, error::UNKNOWN_OPERATION, error::INVALID_ARGUMENT };
                f1 = A->forest; f2 = B->forest; f3 = rf;
                stats.opcount[std::string("misuse:cat:") + op.name]++;
                dd_edge r(forests[rf].f);
                if (op.f) apply(op.f, *A->e, *B->e, r);
                else if (!strcmp(op.name, "REACHABLE_TRAD_FS")) apply(REACHABLE_TRAD_FS(s.a[4] & 64), *A->e, *B->e, r);
                else if (!strcmp(op.name, "REACHABLE_TRAD_NOFS")) apply(REACHABLE_TRAD_NOFS(s.a[4] & 64), *A->e, *B->e, r);
                else apply(REACHABLE_SATUR(s.a[4] & 64), *A->e, *B->e, r);
                break;
            }
            case 9: {   // unary catalogue x mismatch: result forest over another domain or of the other shape
                typedef unary_factory& (*uf)();
                static const struct { const char* name; uf f; } cat[] = {
                    {"COPY", COPY}, {"COMPLEMENT", COMPLEMENT}, {"CONVERT_TO_INDEX_SET", CONVERT_TO_INDEX_SET},
                };
                const auto &op = cat[s.a[1] % 3];
                const unsigned way = s.a[2] % 2;
                EdgeSlot* A = liveEdge([&](const ForRT &F) { return F.kind() != FK_IDX; }, s.a[3]);
                if (!A) { note(OC_SKIP); return; }
                const ForRT &FA = forests[A->forest];
                int rf = pickForest(s.a[4], [&](const ForRT &F) {
                    if (way == 0) return F.spec.dom != FA.spec.dom && F.spec.rel == FA.spec.rel;
                    return F.spec.dom == FA.spec.dom && F.spec.rel != FA.spec.rel;
                });
                if (rf < 0) { note(OC_SKIP); return; }
                what = std::string(op.name) + (way ? " into a forest of the other shape (set/relation)" : " into a forest over another domain");
                desc << ": " << what << " (" << fn(A->forest) << " -> " << fn(rf) << ")";
                if (tracing) { fprintf(stderr, "   doing: %s\n", desc.str().c_str()); fflush(stderr); }
                accept = { error::DOMAIN_MISMATCH, error::TYPE_MISMATCH, error::FOREST_MISMATCH, error::NOT_IMPLEMENTED,
                           error::INVALID_OPERATION, error::UNKNOWN_OPERATION, error::INVALID_ARGUMENT };
                f1 = A->forest; f3 = rf;
                stats.opcount[std::string("misuse:cat:") + op.name]++;
                dd_edge r(forests[rf].f);
                apply(op.f, *A->e, r);
                break;
            }
            default: {  // subtracting infinity (EV+)
                EdgeSlot* A = liveEdge([](const ForRT &F) { return F.kind() == FK_EVP; }, s.a[1]);
                if (!A || !A->oracle) { note(OC_SKIP); return; }
                ForRT &F = forests[A->forest];
                dd_edge inf(F.f);
                F.f->createConstant(rangeval(range_special::PLUS_INFINITY, range_type::INTEGER), inf);
                // The error is raised where a FINITE value meets the infinite
                // subtrahend.  Where the minuend is +infinity too the library
                // short-circuits (KF-C05-3, probe plans only): the minuend
                // must be finite somewhere.
                bool finite = false;
                for (const Val &v : A->tab.v) if (!v.inf) finite = true;
                if (s.a[5] == 999) {
                    dd_edge inf2(F.f), r2(F.f);
                    apply(PLUS, inf, inf, inf2);
                    what = "MINUS of +infinity from +infinity";
                    accept = { error::SUBTRACT_INFINITY };
                    f1 = A->forest;
                    apply(MINUS, inf2, inf, r2);
                    break;
                }
                if (!finite) { note(OC_SKIP); return; }
                what = "MINUS with an infinite subtrahend";
                accept = { error::SUBTRACT_INFINITY, error::TYPE_MISMATCH, error::NOT_IMPLEMENTED };
                f1 = A->forest;
                dd_edge r(F.f);
                apply(MINUS, *A->e, inf, r);
                break;
            }
        }
    }
    catch (MEDDLY::error &e) {
        threw = true;
        code = e.getCode();
    }
    stats.fired["misuse"]++;
    stats.opcount[std::string("misuse:") + std::to_string(which)]++;
    markErrored(f1); markErrored(f2); markErrored(f3);
    if (!threw) {
        failNow("E1", cur_family, what + ": no error was raised");
        return;
    }
    bool ok = false;
    for (error::code c : accept) if (c == code) ok = true;
    if (!ok) {
        error tmp(code, "", 0);
        failNow("E1", cur_family, what + ": raised " + tmp.getName() + " instead of the documented error");
        return;
    }
    // everything held is still intact: checked by the per-step audit (I1..I5)
    note(OC_ERROR, uint64_t(code));
}

// ----------------------------------------------------------------------
// life cycle
// ----------------------------------------------------------------------
void World::opKillForest(const Step &s)
{
    cur_family = "lifecycle";
    int fi = pickForest(s.a[0], [](const ForRT &) { return true; });
    if (fi < 0) { note(OC_SKIP); return; }
    // iterators on it must not be advanced any more
    for (IterSlot* I : iters) if (I->forest == fi) { I->forest = -1; }
    desc << "destroy " << fn(fi);
    if (tracing) { fprintf(stderr, "   doing: %s\n", desc.str().c_str()); fflush(stderr); }
    destroyForest(fi);
    stats.fired["forest_destroyed"]++;
    note(OC_OK);
}

void World::opKillDomain(const Step &s)
{
    cur_family = "lifecycle";
    std::vector<int> c;
    for (size_t i = 0; i < doms.size(); i++) if (doms[i].alive) c.push_back(int(i));
    if (c.size() < 1) { note(OC_SKIP); return; }
    int di = c[s.a[0] % c.size()];
    desc << "destroy domain " << di;
    if (tracing) { fprintf(stderr, "   doing: %s\n", desc.str().c_str()); fflush(stderr); }
    for (IterSlot* I : iters) if (I->forest >= 0 && forests[I->forest].spec.dom == di) I->forest = -1;
    destroyDomain(di);
    stats.fired["domain_destroyed"]++;
    note(OC_OK);
}

void World::opNewForest(const Step &s)
{
    cur_family = "lifecycle";
    // re-create a destroyed forest slot (new identifier expected)
    std::vector<int> c;
    for (size_t i = 0; i < forests.size(); i++)
        if (!forests[i].alive && doms[forests[i].spec.dom].alive) c.push_back(int(i));
    if (c.empty()) { note(OC_SKIP); return; }
    createForest(c[s.a[0] % c.size()]);
    desc << "re-create " << fn(c[s.a[0] % c.size()]);
    if (tracing) { fprintf(stderr, "   doing: %s\n", desc.str().c_str()); fflush(stderr); }
    stats.fired["forest_recreated"]++;
    note(OC_OK);
}

void World::opRestart(const Step &s)
{
    cur_family = "lifecycle";
    desc << "cleanup() and initialize() again";
    if (tracing) { fprintf(stderr, "   doing: %s\n", desc.str().c_str()); fflush(stderr); }
    // cleanup() with everything alive; edges become inert
    for (IterSlot* I : iters) { delete I->it; delete I->mask; delete I->root; delete I; }
    iters.clear();
    stopLibrary();
    for (EdgeSlot* e : edges) {
        if (e->e->getForest() != nullptr) {
            failNow("I8", cur_family, "edge still reports a forest after cleanup()");
            return;
        }
    }
    Config c2 = plan.cfg;
    c2.ct_style = int((unsigned(plan.cfg.ct_style) + s.a[0]) % 4);
    startLibrary(c2);
    createDomains();
    for (size_t i = 0; i < forests.size(); i++) createForest(int(i));
    stats.fired["library_restart"]++;
    lib_epoch++;
    note(OC_OK);
}

}
