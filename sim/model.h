// Reference model: functions as dense tables over the *variables* of a
// domain (never over levels).  Trivial on purpose: every operation is the
// pointwise / graph-search definition.
#ifndef SIM_MODEL_H
#define SIM_MODEL_H

#include <cstdint>
#include <vector>
#include <string>
#include <functional>

namespace sim {

// Forest kinds the library offers
enum FKind { FK_MTB = 0, FK_MTI, FK_MTR, FK_EVP, FK_IDX, FK_EVT, FK_NUM };
const char* fkName(FKind k);

struct Val {
    enum T : uint8_t { B = 0, I = 1, R = 2 };
    T t;
    bool inf;       // +infinity (EV+ / index sets)
    bool inexact;   // produced by an inexact real operation
    long i;
    double d;

    Val() : t(B), inf(false), inexact(false), i(0), d(0) { }
    static Val b(bool x)   { Val v; v.t = B; v.i = x; return v; }
    static Val n(long x)   { Val v; v.t = I; v.i = x; return v; }
    static Val r(double x, bool inex = false) {
        Val v; v.t = R; v.d = x; v.inexact = inex; return v;
    }
    static Val pinf(T t)   { Val v; v.t = t; v.inf = true; return v; }

    inline bool isReal() const { return t == R; }
    // numeric view (reals as double, others as long)
    inline double num() const { return t == R ? d : double(i); }
    // "non-default" test helpers
    inline bool nonzero() const { return inf || (t == R ? d != 0.0 : i != 0); }

    bool same(const Val &o) const;          // exact identity
    bool close(const Val &o) const;         // tolerance if either inexact
    uint64_t hash() const;
    std::string str() const;
};

struct Dom {
    std::vector<int> sizes;     // sizes[v-1] for variable v = 1..n
    std::vector<long> stride;   // stride[v-1]
    long N;                     // number of states
    void finish();
    inline int nvars() const { return int(sizes.size()); }
    // decode state index into assignment x[1..n] (x[0] unused)
    void decode(long s, std::vector<int> &x) const;
    long encode(const std::vector<int> &x) const;
};

struct Table {
    bool rel = false;
    long N = 0;                 // states of the domain
    std::vector<Val> v;         // N entries, or N*N for relations [from*N+to]

    inline size_t size() const { return v.size(); }
    bool exact() const;
    bool pow2() const;          // every value is 0 or +-2^k (exact under float products and normalisation)
    bool same(const Table &o) const;
    bool close(const Table &o) const;
    uint64_t hash() const;
    long countNonDefault(const Val &deflt) const;
    static Table constant(const Dom &D, bool rel, const Val &c);
};

// value conventions per forest kind
Val defaultOf(FKind k);          // transparent / "not enumerated" value
Val::T rangeOf(FKind k);
bool kindHoldsValue(FKind k, const Val &v);

// ---------------------------------------------------------------------
// Scalar operation catalogue (model side)
// ---------------------------------------------------------------------

enum ModelErr {
    ME_NONE = 0, ME_DIV_ZERO, ME_SUB_INF, ME_INF_DIV_INF, ME_OVERFLOW,
    ME_UNDEFINED    // the model does not define this case (no oracle)
};

enum BinOp {
    BO_UNION = 0, BO_INTERSECTION, BO_DIFFERENCE,
    BO_PLUS, BO_MINUS, BO_MULTIPLY, BO_DIVIDE, BO_MODULO,
    BO_MAXIMUM, BO_MINIMUM, BO_DIST_MIN,
    BO_EQ, BO_NE, BO_LT, BO_LE, BO_GT, BO_GE,
    BO_NUM
};
const char* binName(BinOp o);

// Pointwise scalar semantics; `rk` is the result forest kind.
// Returns ME_* ; on ME_NONE `out` is set.
ModelErr scalarBin(BinOp o, FKind ak, const Val &a, FKind bk, const Val &b,
        FKind rk, Val &out);

// Convert a value between forest kinds (COPY semantics).
ModelErr convertVal(FKind from, const Val &a, FKind to, Val &out);

// ---------------------------------------------------------------------
// Relational helpers on boolean relation tables / sets
// ---------------------------------------------------------------------

// successors[s] = list of t with R(s,t) non-default
void adjacency(const Table &R, std::vector<std::vector<int>> &succ,
        std::vector<std::vector<int>> &pred);

}

#endif
