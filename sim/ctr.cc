// C06/C07: stand-alone simulation of the width-adapting counter arrays that
// hold every node's incoming count and cache count (src/arrays.h,
// counter_array).  A seeded client issues the calls node_headers makes
// (isZeroBeforeIncrement / isPositiveAfterDecrement for incoming counts,
// increment / decrement for cache counts, swap, expand and shrink when the
// handle list is resized) against the real array and against a plain vector
// of 64-bit integers.  Oracle: after every call the touched counters, and
// after every resize and periodically all counters, equal the model; return
// values equal the model's; the element width is wide enough.
// The schedule is biased towards the width boundaries (255/256/257 and
// 65535/65536/65537) and resizes right after a counter crossed one.
#include "prng.h"
#include "../src/meddly.h"
#include "../src/arrays.h"

#include <cstdio>
#include <cstdlib>
#include <cstring>
#include <chrono>
#include <sstream>
#include <string>
#include <vector>

using namespace sim;

namespace {

struct CtrResult {
    bool ok = true;
    std::string detail;
    long ops = 0, bulk = 0, resizes = 0, narrowings = 0, widenings = 0, scans = 0, crossings = 0;
    uint64_t hash = 0;
};

struct CtrRun {
    MEDDLY::counter_array A;
    std::vector<uint64_t> M;
    CtrResult &R;
    int mode;       // 0: incoming-count calls, 1: cache-count calls
    std::vector<std::string>* trace;
    CtrRun(CtrResult &r, int m, std::vector<std::string>* t) : A(nullptr), R(r), mode(m), trace(t) { }

    void fail(const std::string &s) { if (R.ok) { R.ok = false; R.detail = s; } }
    void say(const std::string &s) { if (trace) trace->push_back(s); }

    bool checkOne(size_t i, const char* after) {
        const unsigned got = A.get(i);
        if (uint64_t(got) != M[i]) {
            std::ostringstream s;
            s << (mode ? "cache" : "incoming") << " counter " << i << " reads " << got << " after " << after
              << ", " << M[i] << " references were counted (element width " << A.entry_bits() << " bits)";
            fail(s.str());
            return false;
        }
        return true;
    }
    bool checkAll(const char* after) {
        R.scans++;
        for (size_t i = 0; i < M.size(); i++) if (!checkOne(i, after)) return false;
        uint64_t mx = 0;
        for (uint64_t v : M) if (v > mx) mx = v;
        const unsigned need = mx >= 65536 ? 32 : (mx >= 256 ? 16 : 8);
        if (A.entry_bits() < need) {
            std::ostringstream s;
            s << "element width " << A.entry_bits() << " bits after " << after << " cannot hold the largest count " << mx;
            fail(s.str());
            return false;
        }
        return true;
    }
    void up(size_t i) {
        const uint64_t before = M[i];
        const unsigned wb = A.entry_bits();
        if (mode == 0) {
            const bool z = A.isZeroBeforeIncrement(i);
            if (z != (before == 0)) { fail("isZeroBeforeIncrement returned the wrong answer"); return; }
        } else {
            A.increment(i);
        }
        M[i] = before + 1;
        if (A.entry_bits() > wb) R.widenings++;
        if (M[i] == 256 || M[i] == 65536) R.crossings++;
    }
    void down(size_t i) {
        const uint64_t before = M[i];
        if (!before) return;
        if (mode == 0) {
            const bool p = A.isPositiveAfterDecrement(i);
            if (p != (before > 1)) { fail("isPositiveAfterDecrement returned the wrong answer"); return; }
        } else {
            A.decrement(i);
        }
        M[i] = before - 1;
        if (before == 256 || before == 65536) R.crossings++;
    }
    // move counter i to the value `to` one call at a time
    void walk(size_t i, uint64_t to) {
        R.bulk++;
        while (R.ok && M[i] < to) up(i);
        while (R.ok && M[i] > to) down(i);
        if (R.ok) checkOne(i, "a run of single increments/decrements");
    }
    void resize(size_t ns) {
        const unsigned wb = A.entry_bits();
        const bool shr = ns < M.size();
        // counters above the new size must be unused, as in node_headers
        if (shr) {
            for (size_t i = ns; i < M.size(); i++) if (M[i]) walk(i, 0);
            if (!R.ok) return;
            A.shrink(ns);
            M.resize(ns);
        } else {
            A.expand(ns);
            M.resize(ns, 0);
        }
        R.resizes++;
        if (A.entry_bits() < wb) R.narrowings++;
        if (A.entry_bits() > wb) R.widenings++;
        checkAll(shr ? "shrink" : "expand");
    }
};

const uint64_t EDGE[] = { 0, 1, 2, 254, 255, 256, 257, 258, 300, 65534, 65535, 65536, 65537, 65538, 70000 };

void ctrRun(uint64_t seed, int mode, bool thorough, CtrResult &R, std::string &cfg, long maxops = -1,
    std::vector<std::string>* trace = nullptr, const std::vector<char>* skip = nullptr)
{
    Rng G(mix64(seed, 0xC7A));
    long nops = long(G.range(20, thorough ? 400 : 160));
    if (maxops >= 0 && maxops < nops) nops = maxops;
    const bool allow32 = G.chance(1, 2);            // half the runs stay below 65536
    CtrRun W(R, mode, trace);
    std::ostringstream c; c << (mode ? "cache" : "incoming") << (allow32 ? " upto32" : " upto16") << " ops=" << nops;
    cfg = c.str();
    W.resize(size_t(G.range(1, 12)));
    EventHash H;
    for (long op = 0; op < nops && R.ok; op++) {
        // every step consumes the same number of draws, so that steps can be
        // removed from a failing schedule without changing the others
        uint64_t r[6];
        for (uint64_t &x : r) x = G.next();
        if (skip && size_t(op) < skip->size() && (*skip)[size_t(op)]) continue;
        R.ops++;
        const unsigned k = unsigned(r[0] % 100);
        const size_t n = W.M.size();
        std::ostringstream t;
        t << "[" << op << "] ";
        if (k < 45) {
            // walk one counter to a boundary value
            const size_t i = size_t(r[1] % n);
            uint64_t to = EDGE[r[2] % (allow32 ? 15 : 9)];
            if (r[3] % 4 == 0) to = r[4] % (allow32 ? 70000 : 600);
            t << "walk " << i << " " << to;
            W.say(t.str());
            W.walk(i, to);
        } else if (k < 65) {
            const size_t i = size_t(r[1] % n);
            const long cnt = 1 + long(r[2] % 4);
            const bool upw = r[3] % 2;
            t << (upw ? "up " : "down ") << i << " x" << cnt;
            W.say(t.str());
            for (long j = 0; j < cnt && R.ok; j++) { if (upw) W.up(i); else W.down(i); }
            if (R.ok) W.checkOne(i, "increment/decrement");
        } else if (k < 72) {
            const size_t i = size_t(r[1] % n), j = size_t(r[2] % n);
            t << "swap " << i << " " << j;
            W.say(t.str());
            W.A.swap(i, j);
            std::swap(W.M[i], W.M[j]);
            W.checkOne(i, "swap"); if (R.ok) W.checkOne(j, "swap");
        } else if (k < 86) {
            const size_t ns = n + 1 + size_t(r[1] % 40);
            t << "expand " << ns;
            W.say(t.str());
            W.resize(ns);
        } else if (k < 97) {
            if (n > 1) {
                const size_t ns = 1 + size_t(r[1] % (n - 1));
                t << "shrink " << ns;
                W.say(t.str());
                W.resize(ns);
            }
        } else {
            t << "scan";
            W.say(t.str());
            W.checkAll("a sequence of calls");
        }
        H.add(uint64_t(W.M.size()) * 131 + W.A.entry_bits());
    }
    if (R.ok) W.checkAll("the last call");
    // release everything, as a forest does at its end
    for (size_t i = 0; i < W.M.size() && R.ok; i++) if (W.M[i] && W.M[i] < 1000) W.walk(i, 0);
    R.hash = H.h;
}

std::vector<char> parseSkip(const char* s)
{
    std::vector<char> v;
    if (!s) return v;
    while (*s) {
        char* e; long k = strtol(s, &e, 10);
        if (e == s) break;
        if (k >= 0) { if (size_t(k) >= v.size()) v.resize(size_t(k) + 1, 0); v[size_t(k)] = 1; }
        s = (*e == ',') ? e + 1 : e;
    }
    return v;
}

const char* aval(int argc, char** argv, const char* key, const char* deflt)
{
    for (int i = 1; i + 1 < argc; i++) if (!strcmp(argv[i], key)) return argv[i+1];
    return deflt;
}

}

int ctrMain(int argc, char** argv)
{
    const uint64_t seed = strtoull(aval(argc, argv, "--seed", "1"), nullptr, 10);
    const long start = atol(aval(argc, argv, "--start", "0"));
    const long count = atol(aval(argc, argv, "--count", "100"));
    const long stride = atol(aval(argc, argv, "--stride", "1"));
    const double maxsecs = atof(aval(argc, argv, "--maxsecs", "1e9"));
    const std::string rdir = aval(argc, argv, "--replays", "replays");
    const std::string prop = aval(argc, argv, "--prop", "C06");
    // C07 is about cache counts (increment/decrement), C06 about incoming counts
    const int mode = (prop == "C07") ? 1 : 0;
    bool thorough = false;
    for (int i = 1; i < argc; i++) if (!strcmp(argv[i], "--thorough")) thorough = true;
    const char* one = aval(argc, argv, "--one", nullptr);
    if (one) {
        CtrResult R; std::string cfg; std::vector<std::string> tr;
        const std::vector<char> sk = parseSkip(aval(argc, argv, "--skip", nullptr));
        ctrRun(strtoull(one, nullptr, 10), mode, thorough, R, cfg, atol(aval(argc, argv, "--ops", "-1")), &tr, &sk);
        for (const std::string &l : tr) printf("# %s\n", l.c_str());
        if (R.ok) { printf("REPLAY clean %s\n", cfg.c_str()); return 0; }
        printf("REPLAY failure class=%s:ctr\n  %s\n", cfg[0] == 'c' ? "I5" : "I4", R.detail.c_str());
        return 1;
    }
    auto t0 = std::chrono::steady_clock::now();
    for (long i = start; i < count; i += stride) {
        const uint64_t rs = mix64(mix64(seed, 0xC7A0), uint64_t(i));
        CtrResult R; std::string cfg;
        printf("{\"begin\":%ld,\"runseed\":\"%llu\"}\n", i, (unsigned long long) rs);
        fflush(stdout);
        ctrRun(rs, mode, thorough, R, cfg);
        const char* mon = cfg[0] == 'c' ? "I5" : "I4";
        std::string replay;
        if (!R.ok) {
            CtrResult R2; std::string c2;
            ctrRun(rs, mode, thorough, R2, c2);
            if (R2.ok || R2.detail != R.detail) { printf("{\"run\":%ld,\"nondeterministic\":true}\n", i); return 2; }
            // minimise: cut the schedule after the failing step, then drop every
            // step whose removal keeps a failure of the same counter kind
            long nst = 0;
            { Rng G0(mix64(rs, 0xC7A)); nst = long(G0.range(20, thorough ? 400 : 160)); }
            long hi = nst;
            { long lo = 1;
              while (lo < hi) {
                const long mid = (lo + hi) / 2;
                CtrResult R3; std::string c3;
                ctrRun(rs, mode, thorough, R3, c3, mid);
                if (!R3.ok) hi = mid; else lo = mid + 1;
              } }
            std::vector<char> sk(size_t(hi), 0);
            for (long j = hi - 1; j >= 0; j--) {
                sk[size_t(j)] = 1;
                CtrResult R3; std::string c3;
                ctrRun(rs, mode, thorough, R3, c3, hi, nullptr, &sk);
                if (R3.ok) sk[size_t(j)] = 0;
            }
            CtrResult R4; std::string c4; std::vector<std::string> tr;
            ctrRun(rs, mode, thorough, R4, c4, hi, &tr, &sk);
            std::string sks;
            for (size_t j = 0; j < sk.size(); j++) if (sk[j]) { if (!sks.empty()) sks += ","; sks += std::to_string(j); }
            if (sks.empty()) sks = "-1";
            char nm[256];
            snprintf(nm, sizeof nm, "%s/%s_%llu_%ld.ctr", rdir.c_str(), prop.c_str(), (unsigned long long) seed, i);
            FILE* f = fopen(nm, "w");
            if (f) {
                fprintf(f, "CTRREPLAY 1\nprop %s\nrunseed %llu\nthorough %d\nops %ld\nskip %s\nexpect %s\n",
                    prop.c_str(), (unsigned long long) rs, thorough ? 1 : 0, hi, sks.c_str(), R4.ok ? "(minimisation lost the failure)" : R4.detail.c_str());
                for (const std::string &l : tr) fprintf(f, "# %s\n", l.c_str());
                fclose(f);
            }
            if (R4.ok) { printf("{\"run\":%ld,\"nondeterministic\":true}\n", i); return 2; }
            replay = nm;
        }
        std::string d;
        for (char ch : R.detail) { if (ch == '"' || ch == '\\') d += '\\'; d += ch; }
        printf("{\"run\":%ld,\"seed\":%llu,\"prop\":\"%s\",\"ok\":%s,\"abandoned\":false,\"steps\":%ld,\"nsteps\":%ld,"
            "\"hash\":\"%016llx\",\"secs\":0,\"cfg\":\"%s\"",
            i + 1000000, (unsigned long long) rs, prop.c_str(), R.ok ? "true" : "false", R.ops, R.ops,
            (unsigned long long) R.hash, cfg.c_str());
        if (!R.ok) printf(",\"cls\":\"%s:ctr\",\"detail\":\"%s\",\"step\":%ld,\"replay\":\"%s\"", mon, d.c_str(), R.ops, replay.c_str());
        printf(",\"fired\":{\"counter_resizes\":%ld,\"counter_narrowings\":%ld,\"counter_widenings\":%ld,\"width_boundary_crossings\":%ld},"
            "\"ops\":{\"ctr_%s\":1},\"probes\":{}}\n",
            R.resizes, R.narrowings, R.widenings, R.crossings, cfg.substr(0, cfg.find(' ')).c_str());
        fflush(stdout);
        double el = std::chrono::duration<double>(std::chrono::steady_clock::now() - t0).count();
        if (el > maxsecs) break;
    }
    printf("{\"done\":true}\n");
    return 0;
}

#ifdef CTR_STANDALONE
int main(int argc, char** argv) { return ctrMain(argc, argv); }
#endif
