// Plan generation: a pure function of (seed, property profile, tier).
// Swarm style: every run draws its own forest kinds, policies, knobs,
// fault kinds and operation mix.
#include "plan.h"

#include <cstring>
#include <map>

namespace sim {

struct OpW { const char* op; unsigned w; };

struct Profile {
    const char* prop;
    // forest kinds (bit per FKind) that may be created
    unsigned kinds;
    bool sets, rels;
    bool twoDomains;
    std::vector<OpW> ops;
    bool lifecycle;         // destroy / restart steps allowed
    bool reorderAll;        // draw all eight heuristics
};

#define K(x) (1u << (x))
// EV* (relations only) is drawn in the profiles whose properties name it
static const unsigned K_ALL = K(FK_MTB)|K(FK_MTI)|K(FK_MTR)|K(FK_EVP);
static const unsigned K_EVT = K(FK_EVT);

static const std::vector<OpW> BUILD = {
    {"mkconst", 4}, {"mkvar", 6}, {"mkmt", 10}, {"mkcollmax", 12}, {"mkcollmin", 8}
};
static const std::vector<OpW> CHURN = {
    {"copyedge", 4}, {"assign", 3}, {"release", 8}, {"purge", 4}, {"drain", 2}
};

static std::vector<OpW> cat(std::initializer_list<std::vector<OpW>> l)
{
    std::vector<OpW> r;
    for (auto &v : l) r.insert(r.end(), v.begin(), v.end());
    return r;
}

static const Profile& profileFor(const std::string &prop)
{
    static std::map<std::string, Profile> P;
    if (P.empty()) {
        P["C01"] = { "C01", K_ALL|K_EVT, true, true, false,
            cat({BUILD, CHURN, {{"bin", 20}, {"compl", 4}, {"copy", 10}, {"rebuild", 20}, {"masscopy", 1}}}), false, false };
        P["C02"] = { "C02", K_ALL|K(FK_IDX), true, true, false,
            cat({BUILD, CHURN, {{"bin", 25}, {"compl", 4}, {"copy", 8}, {"cross", 3}, {"image", 4}, {"reorder", 2}, {"index", 2}, {"unary", 4}}}), false, false };
        P["C03"] = { "C03", K_ALL, true, true, false,
            cat({BUILD, BUILD, BUILD, {{"release", 6}, {"purge", 1}, {"reorder", 1}}}), false, false };
        P["C04"] = { "C04", K(FK_MTB), true, true, false,
            cat({BUILD, CHURN, {{"bin", 40}, {"compl", 10}, {"cross", 8}, {"copy", 6}}}), false, false };
        P["C05"] = { "C05", K(FK_MTI)|K(FK_MTR)|K(FK_EVP)|K(FK_MTB)|K_EVT, true, true, false,
            cat({BUILD, CHURN, {{"bin", 50}, {"unary", 10}, {"range", 8}, {"misuse", 2}}}), false, false };
        P["C06"] = { "C06", K_ALL, true, true, false,
            cat({BUILD, CHURN, CHURN, {{"bin", 25}, {"copy", 5}, {"masscopy", 2}, {"hoard", 5}, {"unhoard", 9}, {"drain", 4}, {"detach", 2}, {"iteropen", 2}, {"iterstep", 4}, {"image", 3}, {"reach", 2}}}), false, false };
        P["C07"] = { "C07", K_ALL, true, true, false,
            cat({BUILD, CHURN, {{"bin", 40}, {"compl", 4}, {"copy", 8}, {"purge", 8}, {"release", 8}, {"image", 4}, {"unary", 4}, {"cross", 2}, {"rebuild", 4}}}), false, false };
        P["C08"] = { "C08", K(FK_MTB)|K(FK_MTI)|K(FK_EVP), true, true, false,
            cat({BUILD, {{"reach", 30}, {"mkgraph", 10}, {"bin", 6}, {"release", 4}, {"purge", 2}, {"copy", 2}}}), false, false };
        P["C09"] = { "C09", K(FK_MTB)|K(FK_MTI)|K(FK_EVP)|K(FK_MTR), true, true, false,
            cat({BUILD, {{"image", 30}, {"vmmult", 14}, {"mkgraph", 8}, {"bin", 4}, {"release", 4}, {"purge", 2}}}), false, false };
        P["C10"] = { "C10", K_ALL|K_EVT, true, true, false,
            cat({BUILD, CHURN, {{"copy", 50}, {"bin", 6}}}), false, false };
        P["C11"] = { "C11", K_ALL|K(FK_IDX), true, true, false,
            cat({BUILD, {{"iter", 25}, {"iteropen", 5}, {"iterstep", 12}, {"card", 15}, {"counts", 12}, {"bin", 8}, {"release", 4}, {"index", 3}, {"bigcard", 4}}}), false, false };
        P["C12"] = { "C12", K_ALL, true, true, false,
            cat({BUILD, CHURN, {{"bin", 30}, {"compl", 3}, {"copy", 8}, {"counts", 6}, {"image", 3}, {"cross", 2}, {"release", 8}, {"unary", 3}}}), false, false };
        P["C13"] = { "C13", K(FK_MTB)|K(FK_MTI)|K(FK_MTR)|K(FK_EVP), true, true, false,
            cat({BUILD, {{"reorder", 20}, {"bin", 12}, {"release", 4}, {"purge", 1}, {"rebuild", 4}, {"iter", 3}}}), false, true };
        P["C14"] = { "C14", K_ALL|K(FK_IDX), true, true, false,
            cat({BUILD, {{"io", 30}, {"ioread", 14}, {"killforest", 2}, {"newforest", 4}, {"restart", 1}, {"bin", 8}, {"release", 4}, {"reorder", 1}, {"index", 5}, {"copy", 3}}}), false, false };
        P["C15"] = { "C15", K(FK_MTB)|K(FK_IDX), true, false, false,
            cat({BUILD, {{"index", 30}, {"bin", 10}, {"compl", 3}, {"release", 4}, {"card", 3}, {"iter", 3}, {"bigcard", 5}}}), false, false };
        P["C16"] = { "C16", K_ALL, true, true, true,
            cat({BUILD, CHURN, {{"misuse", 30}, {"bin", 25}, {"iter", 4}, {"copy", 3}}}), false, false };
        P["C17"] = { "C17", K_ALL, true, true, true,
            cat({BUILD, CHURN, {{"bin", 20}, {"copy", 6}, {"killforest", 6}, {"killdomain", 1}, {"newforest", 5}, {"restart", 2}, {"iteropen", 3}, {"iterstep", 3}, {"image", 8}, {"vmmult", 3}, {"reach", 3}, {"misuse", 2}, {"io", 3}, {"ioread", 4}}}), true, false };
        P["C20"] = { "C20", K(FK_MTB), true, true, false,
            cat({BUILD, {{"satpart", 30}, {"bin", 6}, {"release", 4}, {"purge", 2}}}), false, false };
    }
    auto it = P.find(prop);
    if (it == P.end()) return P["C01"];
    return it->second;
}

void generatePlan(uint64_t seed, const GenOptions &opt, Plan &P)
{
    const Profile &pf = profileFor(opt.prop);
    Rng R(mix64(seed, hash_str(opt.prop.c_str())));
    P = Plan();
    P.prop = opt.prop;
    P.seed = seed;
    Config &c = P.cfg;

    // ---- compute tables and knobs
    c.ct_style = int(R.below(4));
    c.ct_stale = int(R.below(3));
    c.ct_compress = int(R.below(2));
    c.ct_huge = R.chance(1, 6);
    {
        static const unsigned mins[] = { 0, 8, 8, 16, 32, 64, 256 };
        c.ct_min = mins[R.below(7)];
        static const unsigned long maxs[] = { 16777216, 16777216, 64, 256, 4096 };
        c.ct_max = maxs[R.below(5)];
        if (c.ct_min && c.ct_max < c.ct_min) c.ct_max = c.ct_min;
        if (!c.ct_min && c.ct_max < 1024) c.ct_max = 1024;
        static const unsigned hs[] = { 0, 8, 8, 16, 64 };
        c.handle_start = hs[R.below(5)];
    }
    c.monitor_mm = R.chance(3, 4);
    c.fault_seed = R.next();
    c.nclients = 2 + int(R.below(3));

    // ---- domains
    const bool wantRel = pf.rels && (!pf.sets || R.chance(2, 3));
    const int ndoms = (pf.twoDomains || R.chance(1, 5)) ? 2 : 1;
    for (int d = 0; d < ndoms; d++) {
        std::vector<int> sz;
        long N = 1;
        int nv = 1 + int(R.below(wantRel ? 3 : 4));
        // reachability: half of the runs work on one or two variables (long
        // paths inside one level, where saturation does its own fixed point)
        if (opt.prop == "C08" && R.chance(1, 2)) nv = 1 + int(R.below(2));
        const long cap = wantRel ? 24 : 96;
        int bigv = R.chance(1, 6) ? int(R.below(uint64_t(nv))) : -1;
        // ... and a single variable is usually a wide one (a graph on 5..8
        // states inside one node)
        if (opt.prop == "C08" && nv == 1 && R.chance(2, 3)) bigv = 0;
        for (int v = 0; v < nv; v++) {
            int s = 2 + int(R.below(3));
            // one run in six has one wide variable (large nodes, long full
            // and sparse forms, bigger chunks in the node memory managers)
            if (v == bigv) s = wantRel ? 5 + int(R.below(4)) : 6 + int(R.below(15));
            while (s > 2 && N * s > cap) s--;
            if (N * s > cap) s = 2;
            if (N * s > cap) break;
            sz.push_back(s);
            N *= s;
        }
        if (sz.empty()) sz.push_back(2);
        c.doms.push_back(sz);
    }

    // ---- forests
    const int nfor = 2 + int(R.below(opt.thorough ? 5 : 4));
    std::vector<int> kinds;
    for (int k = 0; k < FK_NUM; k++) if (pf.kinds & K(k)) kinds.push_back(k);
    // a run concentrates on one or two kinds so that operands meet
    std::vector<int> focus;
    focus.push_back(kinds[R.below(kinds.size())]);
    if (R.chance(1, 2)) focus.push_back(kinds[R.below(kinds.size())]);
    if ((pf.kinds & K(FK_MTB)) && R.chance(1, 2)) focus.push_back(FK_MTB);
    const std::string pr = opt.prop;
    if (pr == "C20" || pr == "C04") { focus.clear(); focus.push_back(FK_MTB); }
    if (pr == "C08") { focus.clear(); focus.push_back(FK_MTB); focus.push_back(FK_MTI); focus.push_back(FK_EVP); focus.push_back(FK_EVP); }
    if (pr == "C15") { focus.clear(); focus.push_back(FK_MTB); focus.push_back(FK_IDX); }
    for (int i = 0; i < nfor; i++) {
        ForSpec f;
        f.dom = int(R.below(uint64_t(ndoms)));
        if (ndoms == 2 && i < 2) f.dom = i;     // both domains inhabited
        f.kind = focus[R.below(focus.size())];
        if (pr == "C15") f.kind = (i == 0) ? FK_MTB : (i == 1 ? FK_IDX : f.kind);
        f.rel = (wantRel && pf.rels) ? int(R.below(2)) : 0;
        if (!pf.sets) f.rel = 1;
        if ((pr == "C08" || pr == "C20" || pr == "C09") && i < 2) f.rel = i;    // one set, one relation
        if (pr == "C09" && i == 1) f.kind = FK_MTB;
        if (f.kind == FK_EVT) f.rel = wantRel ? 1 : 0;
        if (f.kind == FK_EVT && !f.rel) f.kind = FK_MTR;    // EV* is offered for relations only
        if (f.kind == FK_IDX) f.rel = 0;
        f.red = int(R.below(f.rel ? 3 : 2));
        if (f.kind == FK_IDX || f.kind == FK_EVP || f.kind == FK_EVT) {
            // edge-valued forests: the library offers fully (sets) or
            // identity (relations) reduction only
            f.red = f.rel ? 2 : 0;
            if (f.kind == FK_EVP && !f.rel && R.chance(1, 3)) f.red = 1;
            // EV+ relation forests also exist fully- and quasi-reduced; the copy profile draws them
            // (copies from MT relations of the same rule go through the relation-node path of copy_MT)
            if (f.kind == FK_EVP && f.rel && pr == "C10" && R.chance(1, 2)) f.red = int(R.below(2));
        }
        if (pr == "C20" && f.rel) f.red = R.chance(1, 2) ? 2 : 1;
        if (pr == "C20" && !f.rel && R.chance(2, 3)) f.red = 1;     // KF-C20-1: quasi-reduced sets carry the gating runs
        if (pr == "C08") {
            if (f.rel) f.kind = FK_MTB;                         // relations are boolean
            else if (i == 0) f.kind = FK_MTB;                   // at least one boolean set forest
            if (!f.rel && f.kind == FK_MTI) f.red = 0;          // MT distances need a fully-reduced forest
            if (f.rel) f.red = R.chance(1, 2) ? 2 : int(R.below(3));   // saturation needs identity-reduced relations (KF-C08-2/3)
            else if (f.kind == FK_MTB) f.red = int(R.below(2));
            if (i == 2) f.kind = FK_EVP;                        // when there is a third forest it carries EV+ distances
            if (i == 2) { f.rel = 0; f.red = R.chance(2, 3) ? 0 : 1; }
        }
        f.storage = 1 + int(R.below(3));
        f.del = int(R.below(3));
        if (R.chance(1, 2)) f.del = 1 + int(R.below(2));
        f.mm = int(R.below(4));
        f.reorder = 2;      // SINK_DOWN (library default)
        if (pf.reorderAll) f.reorder = int(R.below(8));
        f.swap = pf.reorderAll ? int(R.below(2)) : 0;
        c.forests.push_back(f);
    }

    // ---- fault mode for this run
    const unsigned fmode = unsigned(R.below(3));   // 0 none, 1 light, 2 noisy
    const unsigned droprate = (fmode == 0) ? 0 : (fmode == 1 ? 50 : 200);

    // ---- steps
    unsigned total = 0;
    for (auto &o : pf.ops) total += o.w;
    const int nsteps = opt.thorough ? 40 + int(R.below(160)) : 20 + int(R.below(60));
    // a quarter of the runs start with a burst of constructions
    const int warm = 3 + int(R.below(6));
    for (int i = 0; i < nsteps; i++) {
        Step s;
        unsigned r = unsigned(R.below(total));
        const char* op = pf.ops[0].op;
        for (auto &o : pf.ops) { if (r < o.w) { op = o.op; break; } r -= o.w; }
        if (i < warm) {
            static const char* b[] = { "mkcollmax", "mkmt", "mkcollmin", "mkvar", "mkcollmax", "mkgraph" };
            op = b[R.below((pr == "C08" || pr == "C09") ? 6 : 5)];
        }
        s.op = op;
        s.client = int(R.below(uint64_t(c.nclients)));
        for (int j = 0; j < 6; j++) s.a[j] = uint32_t(R.next() & 0x7fffffff);
        if (s.a[5] == 999) s.a[5] = 998;
        if (s.op == "satpart") s.a[4] = 0;      // by events (by levels: KF-C20-2, probe plans only)
        // probe hunting (tools only): SIM_PROBE_FLAG=<op> sets the "known finding allowed" flag on that step kind
        if (const char* pf = getenv("SIM_PROBE_FLAG")) if (s.op == pf) s.a[5] = 999;
        if (s.op == "masscopy" && s.a[2] == 777) s.a[2] = 776;
        if (s.op == "masscopy" && opt.thorough && R.chance(1, 4)) s.a[2] = 777;
        if (s.op == "hoard" && s.a[2] == 777) s.a[2] = 776;
        if (s.op == "hoard" && opt.thorough && R.chance(1, 5)) s.a[2] = 777;
        s.seed = R.next();
        s.drop = droprate;
        P.steps.push_back(s);
    }
}

}
