// Deterministic PRNG and hashing helpers.  Everything random in the
// simulator derives from one 64-bit seed through these functions.
#ifndef SIM_PRNG_H
#define SIM_PRNG_H

#include <cstdint>
#include <cstddef>
#include <string>

namespace sim {

inline uint64_t splitmix64(uint64_t &x)
{
    uint64_t z = (x += 0x9e3779b97f4a7c15ULL);
    z = (z ^ (z >> 30)) * 0xbf58476d1ce4e5b9ULL;
    z = (z ^ (z >> 27)) * 0x94d049bb133111ebULL;
    return z ^ (z >> 31);
}

inline uint64_t mix64(uint64_t a, uint64_t b)
{
    uint64_t x = a ^ (b + 0x9e3779b97f4a7c15ULL + (a << 6) + (a >> 2));
    return splitmix64(x);
}

inline uint64_t hash_str(const char* s)
{
    uint64_t h = 1469598103934665603ULL;
    while (*s) { h ^= (unsigned char)(*s++); h *= 1099511628211ULL; }
    return h;
}

class Rng {
        uint64_t s;
    public:
        explicit Rng(uint64_t seed = 0) : s(seed) { }
        inline uint64_t next() { return splitmix64(s); }
        // uniform in [0, n)
        inline uint64_t below(uint64_t n) { return n ? next() % n : 0; }
        // uniform in [lo, hi]
        inline long range(long lo, long hi) {
            return lo + long(below(uint64_t(hi - lo + 1)));
        }
        inline bool chance(unsigned num, unsigned den) {
            return below(den) < num;
        }
        inline double unit() {
            return double(next() >> 11) / double(1ULL << 53);
        }
};

// Rolling event hash
struct EventHash {
    uint64_t h = 0x12345678abcdefULL;
    inline void add(uint64_t v) { h = mix64(h, v); }
    inline void add(const std::string &s) { h = mix64(h, hash_str(s.c_str())); }
};

}

#endif
