// Invariant monitors I1..I6, I8 (DESIGN.md section 6).  Pure readers of the
// library's public node-inspection interface plus hooks H3/H4.
#include "world.h"
#include "../src/unique_table.h"

#include <algorithm>
#include <map>
#include <sstream>

using namespace MEDDLY;

namespace sim {

static std::string fdesc(const ForRT &F)
{
    std::ostringstream o;
    o << fkName(F.kind()) << (F.spec.rel ? " rel" : " set") << " red=" << F.spec.red
      << " st=" << F.spec.storage << " del=" << F.spec.del << " mm=" << F.spec.mm;
    return o.str();
}

static std::string edgeText(const dd_edge &e)
{
    std::ostringstream o;
    o << "<";
    const edge_value &v = e.getEdgeValue();
    if (v.isVoid()) o << "-";
    else if (v.isLong()) o << long(v);
    else if (v.isInt()) o << int(v);
    else if (v.isFloat()) o << float(v);
    else if (v.isDouble()) o << double(v);
    o << ", node " << e.getNode() << ">";
    return o.str();
}

void World::auditI1(bool all)
{
    // fresh results are checked by their producers, edges about to be
    // released or overwritten by those steps; everything held is
    // re-evaluated on the periodic pass
    if (!all) return;
    for (EdgeSlot* e : edges) {
        if (failed()) return;
        checkEdge(*e, "I1", cur_family, "held edge");
    }
    for (Hoard* H : hoards) {
        if (failed()) return;
        if (H->copies.empty()) continue;
        EdgeSlot tmp; tmp.forest = H->forest; tmp.tab = H->tab; tmp.oracle = H->oracle;
        tmp.e = H->copies[size_t(cur_step) % H->copies.size()];
        if (H->forest >= 0 && !forests[size_t(H->forest)].alive) tmp.forest = -1;
        checkEdge(tmp, "I1", cur_family, "hoarded copy");
    }
}

void World::auditI2()
{
    // group held edges per forest by model table
    for (size_t fi = 0; fi < forests.size(); fi++) {
        ForRT &F = forests[fi];
        if (!F.alive) continue;
        // index-set nodes carry a cardinality header that takes part in
        // uniqueness: one function may legitimately have several edges there
        if (F.kind() == FK_IDX) continue;
        std::vector<EdgeSlot*> es;
        for (EdgeSlot* e : edges) {
            if (e->forest != int(fi) || !e->oracle || !e->tab.exact()) continue;
            // EV*: identity of edges is claimed only where float arithmetic is exact
            // and the edge was not produced by arithmetic (intermediate values of
            // (f+g)-g are not powers of two even when the result is)
            if (F.kind() == FK_EVT && (!e->tab.pow2() || !e->fexact)) continue;
            es.push_back(e);
        }
        for (size_t i = 0; i < es.size(); i++) {
            for (size_t j = i + 1; j < es.size(); j++) {
                const bool same = es[i]->tab.same(es[j]->tab);
                const bool eq = (*es[i]->e == *es[j]->e);
                stats.i2_pairs++;
                if (same != eq) {
                    std::ostringstream o;
                    o << fdesc(F) << ": two held edges denote "
                      << (same ? "the same function but compare unequal"
                               : "different functions but compare equal")
                      << " (" << en(*es[i]) << " = " << edgeText(*es[i]->e) << ", "
                      << en(*es[j]) << " = " << edgeText(*es[j]->e) << ")";
                    failNow("I2", cur_family, o.str());
                    return;
                }
            }
        }
    }
}

// MT forests carry no edge values: never touch edgeval() there
static inline bool transpAt(const forest* f, const unpacked_node* U, unsigned i)
{
    if (f->isMultiTerminal()) return U->down(i) == f->getTransparentNode();
    return f->isTransparentEdge(U->edgeval(i), U->down(i));
}
static inline bool sameEVAt(const forest* f, const unpacked_node* A, unsigned i,
        const unpacked_node* B, unsigned j)
{
    if (f->isMultiTerminal()) return true;
    return A->edgeval(i) == B->edgeval(j);
}

// I3: structure audit of one forest
void World::auditForestStructure(ForRT &F)
{
    forest* f = F.f;
    const node_handle last = f->getLastNode();
    const int nvars = int(F.lvl2var.size()) - 1;
    long active = 0;
    const bool rel = F.spec.rel != 0;
    const FKind kind = F.kind();
    std::map<int, std::vector<node_handle>> byLevel;

    for (node_handle p = 1; p <= last; p++) {
        if (!f->isActiveNode(p)) continue;
        active++;
        stats.nodes_audited++;
        const int k = f->getNodeLevel(p);
        std::ostringstream where;
        where << fdesc(F) << " node " << p << " level " << k << ": ";
        if (k == 0 || k > nvars || k < -nvars || (!rel && k < 0)) {
            failNow("I3", cur_family, where.str() + "invalid level");
            return;
        }
        byLevel[k].push_back(p);
        unpacked_node* U = unpacked_node::newFromNode(f, p, FULL_ONLY);
        unpacked_node* S = unpacked_node::newFromNode(f, p, SPARSE_ONLY);
        unpacked_node* E = unpacked_node::newFromNode(f, p, FULL_OR_SPARSE);
        std::string err;
        do {
            if (!U->isFull() || !S->isSparse()) { err = "unpacking ignored the requested format"; break; }
            // sparse view vs full view
            unsigned nnz = 0;
            for (unsigned i = 0; i < U->getSize(); i++) {
                if (!transpAt(f, U, i)) nnz++;
            }
            if (nnz == 0) { err = "node is entirely transparent"; break; }
            if (S->getSize() != nnz) {
                std::ostringstream o; o << "sparse view has " << S->getSize() << " entries, full view has " << nnz << " non-transparent";
                err = o.str(); break;
            }
            unsigned prev = 0;
            for (unsigned z = 0; z < S->getSize(); z++) {
                unsigned i = S->index(z);
                if (z && i <= prev) { err = "sparse view not strictly ascending"; break; }
                prev = i;
                if (i >= U->getSize()) { err = "sparse index beyond full size"; break; }
                if (S->down(z) != U->down(i) || !sameEVAt(f, S, z, U, i)) {
                    err = "sparse and full views disagree"; break;
                }
                if (transpAt(f, S, z)) { err = "sparse view holds a transparent entry"; break; }
            }
            if (!err.empty()) break;
            // E agrees with U
            if (E->isFull()) {
                for (unsigned i = 0; i < E->getSize() && i < U->getSize(); i++)
                    if (E->down(i) != U->down(i) || !sameEVAt(f, E, i, U, i)) { err = "either-format view disagrees with full view"; break; }
            } else {
                if (E->getSize() != S->getSize()) err = "either-format view disagrees with sparse view";
                else for (unsigned z = 0; z < E->getSize(); z++)
                    if (E->index(z) != S->index(z) || E->down(z) != S->down(z)) { err = "either-format view disagrees with sparse view"; break; }
            }
            if (!err.empty()) break;
            // hashes
            U->computeHash();
            S->computeHash();
            const unsigned hn = f->hashNode(p);
            if (U->hash() != hn || S->hash() != hn) {
                std::ostringstream o; o << "hash mismatch: stored " << hn << ", full " << U->hash() << ", sparse " << S->hash();
                err = o.str(); break;
            }
            // children
            bool allSame = true;
            for (unsigned i = 0; i < U->getSize(); i++) {
                const node_handle d = U->down(i);
                if (i && (d != U->down(0) || !sameEVAt(f, U, i, U, 0))) allSame = false;
                if (d <= 0) continue;
                if (d > last || !f->isActiveNode(d)) { err = "child is not a live node"; break; }
                const int dk = f->getNodeLevel(d);
                bool below;
                if (!rel) below = (dk < k);
                else {
                    // order: k > -k > k-1 > -(k-1) ...
                    if (k > 0) below = (dk == -k) || (std::abs(dk) < k);
                    else       below = (std::abs(dk) < -k);
                }
                if (!below) { std::ostringstream o; o << "child " << d << " at level " << dk << " is not below"; err = o.str(); break; }
                if (F.spec.red == 1) {
                    int want = rel ? (k > 0 ? -k : (-k) - 1) : k - 1;
                    if (dk != want) { std::ostringstream o; o << "quasi-reduced forest skips from level " << k << " to " << dk; err = o.str(); break; }
                }
                if (rel && F.spec.red == 2 && dk < 0) {
                    // rule quoted from policies.h: an i-singleton primed node
                    // is entered only from the unprimed level directly above
                    // it, and never from the i-th child
                    unsigned idx; node_handle dn;
                    if (f->isSingletonNode(d, idx, dn)) {
                        if (k != -dk) { err = "identity-reduced: singleton primed node entered from a level other than the unprimed level directly above"; break; }
                        if (idx == i) { err = "identity-reduced: illegal singleton edge (index i to primed singleton i)"; break; }
                    }
                }
            }
            if (!err.empty()) break;
            if (F.spec.red == 1) {
                // quasi-reduced: terminal children only at the bottom level
                // unless transparent
                for (unsigned i = 0; i < U->getSize(); i++) {
                    const node_handle d = U->down(i);
                    if (d > 0) continue;
                    if (transpAt(f, U, i)) continue;
                    bool bottom = rel ? (k == -1) : (k == 1);
                    if (!bottom) { err = "quasi-reduced forest: non-transparent terminal edge skips levels"; break; }
                }
                if (!err.empty()) break;
            }
            if ((F.spec.red == 0 || (F.spec.red == 2 && k > 0)) && allSame && U->getSize() == unsigned(f->getLevelSize(k))) {
                bool ok = false;
                // EV forests: redundant nodes have equal children and equal values
                (void) ok;
                err = "forest holds a redundant node where its reduction rule forbids one";
                break;
            }
            // edge value normalisation
            if (kind == FK_EVP || kind == FK_IDX) {
                long mn = 0; bool any = false;
                for (unsigned z = 0; z < S->getSize(); z++) {
                    long v = long(S->edgeval(z));
                    if (!any || v < mn) { mn = v; any = true; }
                }
                if (any && mn != 0) { std::ostringstream o; o << "EV+ node not normalised: minimum edge value " << mn; err = o.str(); break; }
            }
            if (kind == FK_EVT) {
                // the first non-transparent edge value is 1 (normalisation
                // rule quoted from forests/evmxd_timesreal.cc)
            }
            // singleton agreement
            {
                unsigned idx; node_handle dn;
                bool sing = f->isSingletonNode(p, idx, dn);
                bool expect = (S->getSize() == 1);
                if (sing != expect || (sing && (idx != S->index(0) || dn != S->down(0)))) {
                    err = "isSingletonNode disagrees with the unpacked node"; break;
                }
            }
        } while (0);
        unpacked_node::Recycle(U);
        unpacked_node::Recycle(S);
        unpacked_node::Recycle(E);
        if (!err.empty()) { failNow("I3", cur_family, where.str() + err); return; }
    }

    // duplicates: no two nodes at a level have identical content (index-set
    // nodes also carry a cardinality header that takes part in uniqueness)
    for (auto &kv : byLevel) {
        if (kind == FK_IDX) break;
        std::map<std::string, node_handle> seen;
        for (node_handle p : kv.second) {
            unpacked_node* U = unpacked_node::newFromNode(f, p, FULL_ONLY);
            std::ostringstream key;
            for (unsigned i = 0; i < U->getSize(); i++) {
                key << U->down(i) << ":";
                if (f->isMultiTerminal()) { key << ","; continue; }
                const edge_value &ev = U->edgeval(i);
                if (ev.isLong()) key << long(ev);
                else if (ev.isInt()) key << int(ev);
                else if (ev.isFloat()) key << float(ev);
                else if (ev.isDouble()) key << double(ev);
                key << ",";
            }
            unpacked_node::Recycle(U);
            auto it = seen.find(key.str());
            if (it != seen.end()) {
                std::ostringstream o;
                o << fdesc(F) << ": nodes " << it->second << " and " << p
                  << " at level " << kv.first << " have identical content";
                failNow("I3", cur_family, o.str());
                return;
            }
            seen[key.str()] = p;
        }
    }

    // node count, unique table membership
    if (f->getCurrentNumNodes() != active) {
        std::ostringstream o;
        o << fdesc(F) << ": forest reports " << f->getCurrentNumNodes()
          << " nodes, " << active << " are active";
        failNow("I3", cur_family, o.str());
        return;
    }
    const unique_table* UT = f->getUT();
    if (UT) {
        long total = 0;
        std::vector<node_handle> buf;
        for (auto &kv : byLevel) {
            const int var = f->getVarByLevel(kv.first);
            unsigned ne = UT->getNumEntries(var);
            total += ne;
            buf.assign(ne + 4, 0);
            unsigned got = UT->getItems(var, buf.data(), unsigned(buf.size()));
            std::vector<node_handle> a(buf.begin(), buf.begin() + got), b(kv.second);
            std::sort(a.begin(), a.end());
            std::sort(b.begin(), b.end());
            if (a != b) {
                std::ostringstream o;
                o << fdesc(F) << ": unique table for level " << kv.first << " holds "
                  << a.size() << " nodes, " << b.size() << " are active at that level";
                failNow("I3", cur_family, o.str());
                return;
            }
        }
        if (total != active) {
            std::ostringstream o;
            o << fdesc(F) << ": unique table holds " << total
              << " entries, " << active << " nodes are active";
            failNow("I3", cur_family, o.str());
            return;
        }
    }
    stats.audits++;
}

// I4: reference recount
void World::auditRefcounts(ForRT &F)
{
    forest* f = F.f;
    const node_handle last = f->getLastNode();
    std::vector<unsigned> expect(size_t(last) + 1, 0);
    for (node_handle p = 1; p <= last; p++) {
        if (!f->isActiveNode(p)) continue;
        unpacked_node* S = unpacked_node::newFromNode(f, p, SPARSE_ONLY);
        for (unsigned z = 0; z < S->getSize(); z++) {
            node_handle d = S->down(z);
            if (d > 0 && d <= last) expect[size_t(d)]++;
        }
        unpacked_node::Recycle(S);
    }
    long nroots = 0;
    for (const dd_edge* e = f->verif_firstRoot(); e; e = forest::verif_nextRoot(e)) {
        node_handle d = e->getNode();
        nroots++;
        if (d > 0) {
            if (d > last || !f->isActiveNode(d)) {
                failNow("I4", cur_family, fdesc(F) + ": a registered edge points to a reclaimed node");
                return;
            }
            expect[size_t(d)]++;
        }
        if (nroots > 10000000) break;
    }
    if (long(f->countRegisteredEdges()) != nroots) {
        failNow("I4", cur_family, fdesc(F) + ": registry walk and countRegisteredEdges disagree");
        return;
    }
    unpacked_node::AddToIncomingCounts(f, expect);
    for (node_handle p = 1; p <= last; p++) {
        if (!f->isActiveNode(p)) continue;
        const unsigned long ic = f->getNodeInCount(p);
        if (ic != expect[size_t(p)]) {
            std::ostringstream o;
            o << fdesc(F) << ": node " << p << " records " << ic
              << " incoming references, " << expect[size_t(p)] << " exist";
            failNow("I4", cur_family, o.str());
            return;
        }
        if (ic == 0) {
            if (F.spec.del == 2) {
                std::ostringstream o;
                o << fdesc(F) << ": pessimistic forest keeps unreferenced node " << p;
                failNow("I4", cur_family, o.str());
                return;
            }
            if (F.spec.del == 1 && f->verif_cacheCount(p) == 0) {
                std::ostringstream o;
                o << fdesc(F) << ": optimistic forest keeps node " << p
                  << " with no reference and no cache entry";
                failNow("I4", cur_family, o.str());
                return;
            }
        }
    }
}

// I5: cache recount
void World::auditCacheCounts(ForRT &F)
{
    forest* f = F.f;
    const node_handle last = f->getLastNode();
    std::vector<unsigned long> counts(size_t(last) + 1, 0);
    compute_table::countAllNodeEntries(f, counts);
    for (node_handle p = 1; p <= last && size_t(p) < counts.size(); p++) {
        unsigned long cc = f->verif_cacheCount(p);
        if (cc != counts[size_t(p)]) {
            std::ostringstream o;
            o << fdesc(F) << ": node " << p << " has cache count " << cc
              << " but " << counts[size_t(p)] << " compute-table entries mention it";
            failNow("I5", cur_family, o.str());
            return;
        }
    }
}

// I6: drain.  Caller released every client edge and cleared the tables.
void World::auditDrain(ForRT &F)
{
    if (!F.alive || failed()) return;
    if (F.errored) { stats.fired["drain_skipped_after_error"]++; return; }
    if (F.spec.del == 0) return;    // never-delete: no reclamation rule
    forest* f = F.f;
    // reachable from remaining registered roots
    const node_handle last = f->getLastNode();
    std::vector<char> reach(size_t(last) + 1, 0);
    std::vector<node_handle> stack;
    for (const dd_edge* e = f->verif_firstRoot(); e; e = forest::verif_nextRoot(e)) {
        node_handle d = e->getNode();
        if (d > 0 && d <= last && !reach[size_t(d)]) { reach[size_t(d)] = 1; stack.push_back(d); }
    }
    while (!stack.empty()) {
        node_handle p = stack.back(); stack.pop_back();
        if (!f->isActiveNode(p)) continue;
        unpacked_node* S = unpacked_node::newFromNode(f, p, SPARSE_ONLY);
        for (unsigned z = 0; z < S->getSize(); z++) {
            node_handle d = S->down(z);
            if (d > 0 && d <= last && !reach[size_t(d)]) { reach[size_t(d)] = 1; stack.push_back(d); }
        }
        unpacked_node::Recycle(S);
    }
    // nodes held by live compute-table entries of *other* forests' ops may
    // legitimately keep optimistic nodes: those have a cache count
    for (node_handle p = 1; p <= last; p++) {
        if (!f->isActiveNode(p)) continue;
        if (reach[size_t(p)]) continue;
        if (f->verif_cacheCount(p) > 0) continue;
        std::ostringstream o;
        o << fdesc(F) << ": after releasing every edge and clearing the caches node "
          << p << " (level " << f->getNodeLevel(p) << ", incoming "
          << f->getNodeInCount(p) << ") is still alive";
        failNow("I6", cur_family, o.str());
        return;
    }
    stats.drains_checked++;
}

void World::auditRegistry()
{
    for (ForRT &F : forests) {
        if (!F.alive) continue;
        if (forest::getForestWithID(F.fid) != F.f) {
            failNow("I8", cur_family, "live forest not found under its identifier");
            return;
        }
    }
}

void World::auditAfterStep(bool force_all)
{
    if (failed() || !lib_running) return;
    // chunk monitor
    {
        std::string err;
        monitorReport(err);
        if (!err.empty()) { failNow("I7", cur_family, err); return; }
    }
    const bool allI1 = force_all || (i1_every <= 1) || ((cur_step + int(plan.seed % 3)) % i1_every == 0);
    static const bool noI1 = getenv("SIM_NO_I1") != nullptr, noAudit = getenv("SIM_NO_AUDIT") != nullptr;
    if (!noI1) auditI1(allI1);
    if (failed()) return;
    auditI2();
    if (failed()) return;
    if ((full_audit || force_all) && !noAudit) {
        const bool periodic = force_all || audit_every <= 1 || ((cur_step + int(plan.seed % 4)) % audit_every == 0);
        for (ForRT &F : forests) {
            if (!F.alive) continue;
            const statset &st = F.f->getStats();
            uint64_t sig = mix64(uint64_t(st.active_nodes), uint64_t(st.reclaimed_nodes));
            sig = mix64(sig, uint64_t(st.peak_active));
            sig = mix64(sig, uint64_t(F.f->getLastNode()));
            sig = mix64(sig, uint64_t(F.f->countRegisteredEdges()));
            if (!periodic && sig == F.audit_sig) continue;
            F.audit_sig = sig;
            auditForestStructure(F);
            if (failed()) return;
            // an EV* operation that raised an error abandons nodes under
            // construction without returning their references (error paths are
            // outside C06); exact counts are not demanded there afterwards
            if (!(F.errored && F.kind() == FK_EVT)) auditRefcounts(F);
            if (failed()) return;
            auditCacheCounts(F);
            if (failed()) return;
        }
        auditRegistry();
    }
}

void World::finalAudit()
{
    if (failed() || !lib_running) return;
    cur_family = "final";
    auditAfterStep(true);
    if (failed()) return;
    {
        std::string err;
        monitorCheckAll(err);
        if (!err.empty()) { failNow("I7", cur_family, err); return; }
    }
    // final drain of every forest
    dropHoards();
    for (size_t i = edges.size(); i; ) dropEdge(--i);
    for (size_t i = iters.size(); i; ) {
        --i;
        delete iters[i]->it; delete iters[i]->mask; delete iters[i]->root;
        delete iters[i];
    }
    iters.clear();
    if (!compute_table::removeAllFromMonolithic()) {
        for (ForRT &F : forests) if (F.alive) F.f->removeAllComputeTableEntries();
    }
    for (ForRT &F : forests) {
        if (!F.alive) continue;
        stats.drains++;
        auditDrain(F);
        if (failed()) return;
        auditForestStructure(F);
        if (failed()) return;
    }
}

}
