// Simulator driver.
//   sim.bin batch  --prop Cxx --seed S --start i --count n --stride k
//                  [--thorough] --replays DIR --tag T
//   sim.bin replay FILE            exit 0: clean, 1: failure (matches the
//                                  expectation stored in FILE if any),
//                                  2: failure differs from expectation
//   sim.bin shrink FILE OUT        greedy minimisation, same failure class
//   sim.bin mm     --seed S --count n [--thorough]   (C18 harness, mm.cc)
//   sim.bin ctr    --prop C06|C07 --seed S --count n   (counter-array harness, ctr.cc)
#include "world.h"

#include <unistd.h>
#include <fcntl.h>
#include <signal.h>
#include <sys/types.h>
#include <sys/wait.h>
#include <sys/prctl.h>
#include <sys/stat.h>
#include <fstream>
#include <cstdio>
#include <cstdlib>
#include <cstring>
#include <chrono>
#include <set>
#include <sstream>

using namespace sim;

extern int mmMain(int argc, char** argv);
extern int ctrMain(int argc, char** argv);

// classify sanitizer aborts by exit code 77 (see check.py)
extern "C" __attribute__((used)) const char* __asan_default_options()
{
    return "exitcode=77:detect_leaks=0:alloc_dealloc_mismatch=0:abort_on_error=0:allocator_may_return_null=1";
}

extern "C" __attribute__((used)) const char* __ubsan_default_options()
{
    return "print_stacktrace=1:halt_on_error=1";
}

static std::string jsonEscape(const std::string &s)
{
    std::string o;
    for (char c : s) {
        if (c == '"' || c == '\\') { o += '\\'; o += c; }
        else if (c == '\n') o += "\\n";
        else if ((unsigned char)c < 32) o += ' ';
        else o += c;
    }
    return o;
}

struct RunResult {
    bool ok = true;
    std::string cls, detail;
    int step = -1;
    uint64_t hash = 0;
    bool abandoned = false;
    Stats stats;
    std::vector<Obs> obs;
    uint64_t state = 0;
    size_t nedges_peak = 0;
    std::vector<std::string> story;
    std::vector<uint32_t> astates;     // distinct abstract states visited
    std::vector<unsigned long> hits;    // compute-table hits per step
    std::string variant;                // text of the fault-position variant that failed (if any)
};

static void runPlan(const Plan &P, RunResult &R, bool cold = false)
{
    World W(P);
    W.cold_cache = cold;
    W.run();
    R.ok = !W.failed();
    R.cls = W.fail.cls();
    R.detail = W.fail.detail;
    R.step = W.fail.step;
    R.hash = W.eh.h;
    R.abandoned = W.abandoned;
    R.stats = W.stats;
    R.obs = W.obs;
    R.state = W.eh.h;
    R.story = W.story;
    R.hits = W.hits_per_step;
    R.astates.assign(W.astates.begin(), W.astates.end());
}

// --- differential variants ------------------------------------------
static void variantC07(const Plan &P, Plan &V)
{
    V = P;
    V.cfg.ct_style = (P.cfg.ct_style + 1 + int(P.seed % 3)) % 4;
    V.cfg.ct_stale = (P.cfg.ct_stale + 1) % 3;
    V.cfg.ct_min = 0;
    V.cfg.ct_max = 16777216;
    V.cfg.ct_compress = 1 - P.cfg.ct_compress;
    for (Step &s : V.steps) { s.drop = 0; s.dropk = 0; }
}
static void variantC12(const Plan &P, Plan &V)
{
    V = P;
    Rng R(P.seed ^ 0xC12);
    for (ForSpec &f : V.cfg.forests) {
        f.storage = 1 + (f.storage + int(R.below(2))) % 3;
        f.mm = (f.mm + 1 + int(R.below(3))) % 4;
        f.del = (f.del + 1 + int(R.below(2))) % 3;
    }
    V.cfg.handle_start = P.cfg.handle_start ? 0 : 8;
}

static bool compareObs(const RunResult &A, const RunResult &B, bool compareCounts,
        std::string &why)
{
    if (A.obs.size() != B.obs.size()) {
        std::ostringstream o;
        o << "runs recorded " << A.obs.size() << " and " << B.obs.size() << " observations";
        why = o.str();
        return false;
    }
    for (size_t i = 0; i < A.obs.size(); i++) {
        const Obs &x = A.obs[i], &y = B.obs[i];
        bool same = (x.outcome == y.outcome) && (x.h == y.h);
        if (same && compareCounts) same = (x.nodes == y.nodes) && (x.edges == y.edges) && (x.shape == y.shape);
        if (!same) {
            std::ostringstream o;
            o << "observation " << i << " differs: outcome " << x.outcome << "/" << y.outcome
              << " fingerprint " << x.h << "/" << y.h << " nodes " << x.nodes << "/" << y.nodes
              << " edges " << x.edges << "/" << y.edges << " graph shape " << x.shape << "/" << y.shape;
            why = o.str();
            return false;
        }
    }
    return true;
}

// Full evaluation of one plan for a property: primary run plus the
// differential companion where the property asks for one.
// Fault-position sweeps (enumeration of fault positions within a sampled
// plan, not of plans).  A variant is an ordinary, self-contained plan marked
// "nosweep"; when one fails it - not the plan it was derived from - becomes
// the replay file and is minimised.
static bool sweepWanted(const Plan &P, bool thorough, unsigned &budget)
{
    if (P.nosweep) return false;
    const unsigned every = thorough ? 3 : 12;
    budget = thorough ? 24 : 6;
    return (P.seed >> 7) % every == 0;
}
static bool g_thorough = false;

static void evalPlan(const Plan &P, RunResult &R)
{
    runPlan(P, R);
    if (!R.ok || R.abandoned) return;
    if (P.prop == "C07") {
        // a plan that drops exactly the k-th hit of a step must observe what
        // the same plan without that drop observes
        bool hasK = false;
        for (const Step &s : P.steps) if (s.dropk) hasK = true;
        if (hasK) {
            Plan B0 = P;
            for (Step &s : B0.steps) s.dropk = 0;
            RunResult B; runPlan(B0, B);
            std::string why;
            if (B.ok && !B.abandoned && !compareObs(R, B, true, why)) {
                R.ok = false; R.cls = "D7:sweep";
                R.detail = "dropping exactly one compute-table hit changes what the plan observes: " + why;
                return;
            }
        }
        unsigned budget = 0;
        if (!hasK && sweepWanted(P, g_thorough, budget)) {
            Plan P0 = P;
            for (Step &s : P0.steps) { s.drop = 0; s.dropk = 0; }
            RunResult R0; runPlan(P0, R0);
            if (R0.ok && !R0.abandoned) {
                Rng Q(P.seed ^ 0x5eed);
                std::vector<size_t> cand;
                for (size_t i = 0; i < R0.hits.size() && i < P0.steps.size(); i++) if (R0.hits[i]) cand.push_back(i);
                unsigned done = 0;
                while (!cand.empty() && done < budget) {
                    const size_t ci = size_t(Q.below(cand.size()));
                    const size_t i = cand[ci];
                    cand.erase(cand.begin() + long(ci));
                    const unsigned long h = R0.hits[i];
                    unsigned long ks[3] = { 1, (h + 1) / 2, h };
                    for (int t = 0; t < 3 && done < budget; t++) {
                        if (t && ks[t] == ks[t-1]) continue;
                        Plan V = P0;
                        V.nosweep = true;
                        V.steps[i].dropk = unsigned(ks[t]);
                        RunResult RV; runPlan(V, RV);
                        done++;
                        R.stats.fired["sweep_single_drop_variants"]++;
                        std::string why;
                        if (!RV.ok) {
                            R.ok = false; R.cls = RV.cls; R.step = RV.step;
                            R.detail = "[single-drop variant: hit " + std::to_string(ks[t]) + " of step " + std::to_string(i) + "] " + RV.detail;
                            R.variant = V.text();
                            return;
                        }
                        if (!RV.abandoned && !compareObs(RV, R0, true, why)) {
                            R.ok = false; R.cls = "D7:sweep";
                            R.detail = "dropping hit " + std::to_string(ks[t]) + " of step " + std::to_string(i) + " changes what the plan observes: " + why;
                            R.variant = V.text();
                            return;
                        }
                    }
                }
            }
        }
    }
    if (P.prop == "C17") {
        unsigned budget = 0;
        if (sweepWanted(P, g_thorough, budget)) {
            // destroy a forest / a domain / restart the library after step i
            Rng Q(P.seed ^ 0x17);
            static const char* kinds[] = { "killforest", "restart", "killdomain", "killforest" };
            for (unsigned v = 0; v < budget && !P.steps.empty(); v++) {
                Plan V = P;
                V.nosweep = true;
                Step ins;
                ins.op = kinds[Q.below(4)];
                ins.client = 0;
                for (int j = 0; j < 6; j++) ins.a[j] = uint32_t(Q.next() & 0x7fffffff);
                ins.seed = Q.next();
                ins.uid = 100000 + int(v);
                const size_t pos = 1 + size_t(Q.below(V.steps.size()));
                V.steps.insert(V.steps.begin() + long(pos), ins);
                RunResult RV; runPlan(V, RV);
                R.stats.fired["sweep_lifecycle_variants"]++;
                if (!RV.ok) {
                    R.ok = false; R.cls = RV.cls; R.step = RV.step;
                    R.detail = std::string("[lifecycle variant: ") + ins.op + " inserted at position " + std::to_string(pos) + "] " + RV.detail;
                    R.variant = V.text();
                    return;
                }
            }
        }
    }
    if (P.prop == "C07") {
        Plan V; variantC07(P, V);
        RunResult B; runPlan(V, B, true);
        R.stats.fired["differential_cold_cache_run"]++;
        if (!B.ok) { R.ok = false; R.cls = B.cls; R.detail = "[cold-cache companion] " + B.detail; R.step = B.step; return; }
        std::string why;
        if (!B.abandoned && !compareObs(R, B, true, why)) {
            R.ok = false; R.cls = "D7:cache"; R.detail = "warm and cold compute tables give different results: " + why;
        }
    } else if (P.prop == "C12") {
        Plan V; variantC12(P, V);
        RunResult B; runPlan(V, B);
        R.stats.fired["differential_policy_run"]++;
        if (!B.ok) { R.ok = false; R.cls = B.cls; R.detail = "[policy companion] " + B.detail; R.step = B.step; return; }
        std::string why;
        if (!B.abandoned && !compareObs(R, B, true, why)) {
            R.ok = false; R.cls = "D12:policy"; R.detail = "storage/memory-manager/deletion policies change results: " + why;
        }
    }
}


// ----------------------------------------------------------------------
// Process isolation.  Every evaluation of a plan happens in a forked child:
// the parent never touches the library, so each run starts from the same
// pristine process image (no state survives from one run to the next), a
// crash costs exactly one run, and the gate / the minimiser can re-execute a
// plan that corrupted the heap.  The child reports through a pipe; its
// stderr (sanitizer report) goes to a scratch file the parent classifies.
// ----------------------------------------------------------------------
static void printResult(FILE* out, long idx, const Plan &P, const RunResult &R,
        const std::string &replay, double secs);

struct IsoResult {
    bool ok = true;
    bool crashed = false;
    bool hung = false;
    std::string cls, detail;
    int step = -1;
    uint64_t hash = 0;
    std::string line;       // JSON result line produced by the child (no newline)
    std::string variant;    // a failing fault-position variant of the plan (plan text)
    std::string errtext;    // what the child wrote to stderr (trace, sanitizer report)
};

static std::string g_scratch = "/tmp";
// Hang detection is by the CPU time the run's process has consumed, not by
// wall clock: a normal run needs 0.1-3 CPU seconds however loaded the machine
// is, a hung one burns CPU without end.  The wall-clock cap is only a backstop.
static int g_step_timeout = 180;    // CPU seconds for one run (a swept run executes up to 25 plans)
static int g_wall_backstop = 1800;  // wall-clock seconds
static double g_shrink_secs = 90;    // wall-clock cap for one minimisation

static std::string readFile(const std::string &p)
{
    std::ifstream f(p);
    std::stringstream ss; ss << f.rdbuf();
    return ss.str();
}

// first in-library frame of a sanitizer report
static std::string crashSignature(const std::string &err, int status)
{
    std::string kind = "signal";
    size_t p = err.find("ERROR: AddressSanitizer: ");
    if (p != std::string::npos) {
        size_t e = err.find_first_of(" \n", p + 25);
        kind = "asan-" + err.substr(p + 25, e - (p + 25));
    } else if ((p = err.find("runtime error: ")) != std::string::npos) {
        size_t e = err.find('\n', p);
        kind = "ubsan-" + err.substr(p + 15, std::min<size_t>(e - (p + 15), 28));
        for (char &c : kind) if (c == ' ' || c == '\'' || c == '"') c = '_';
    } else if (WIFSIGNALED(status)) {
        kind = "signal-" + std::to_string(WTERMSIG(status));
    } else if (WIFEXITED(status)) {
        kind = "exit-" + std::to_string(WEXITSTATUS(status));
    }
    std::string frame = "?";
    size_t q = 0;
    while ((q = err.find(" in ", q)) != std::string::npos) {
        size_t e = err.find_first_of(" \n(", q + 4);
        std::string fn = err.substr(q + 4, e - (q + 4));
        q = e;
        if (fn.find("MEDDLY::") == 0) { frame = fn; break; }
    }
    return kind + "@" + frame;
}

static std::string jsonField(const std::string &line, const std::string &key)
{
    std::string k = "\"" + key + "\":";
    size_t p = line.find(k);
    if (p == std::string::npos) return "";
    p += k.size();
    if (line[p] == '"') {
        std::string o;
        for (size_t i = p + 1; i < line.size(); i++) {
            if (line[i] == '\\' && i + 1 < line.size()) { o += (line[i+1] == 'n') ? '\n' : line[i+1]; i++; continue; }
            if (line[i] == '"') break;
            o += line[i];
        }
        return o;
    }
    size_t e = line.find_first_of(",}", p);
    return line.substr(p, e - p);
}

static void evalIsolated(const Plan &P, long idx, IsoResult &I)
{
    I = IsoResult();
    int fds[2];
    if (pipe(fds) != 0) { perror("pipe"); exit(2); }
    char errpath[512];
    snprintf(errpath, sizeof errpath, "%s/.err.%d", g_scratch.c_str(), int(getpid()));
    fflush(stdout); fflush(stderr);
    pid_t pid = fork();
    if (pid < 0) { perror("fork"); exit(2); }
    if (pid == 0) {
        // never outlive the supervisor (a hung run must not survive it)
        prctl(PR_SET_PDEATHSIG, SIGKILL);
        close(fds[0]);
        int efd = open(errpath, O_WRONLY | O_CREAT | O_TRUNC, 0644);
        if (efd >= 0) { dup2(efd, 2); close(efd); }
        // the library prints to stdout here and there (iterator move ctor)
        int nul = open("/dev/null", O_WRONLY);
        if (nul >= 0) { dup2(nul, 1); close(nul); }
        FILE* out = fdopen(fds[1], "w");
        auto a = std::chrono::steady_clock::now();
        RunResult R;
        evalPlan(P, R);
        double secs = std::chrono::duration<double>(std::chrono::steady_clock::now() - a).count();
        printResult(out, idx, P, R, "", secs);
        fflush(out);
        _exit(0);
    }
    close(fds[1]);
    std::string buf;
    char tmp[4096];
    // read with a wall-clock cap (hang detection)
    // real clock of the supervisor only (libc time() is the simulated clock)
    struct timespec ts0; clock_gettime(CLOCK_MONOTONIC, &ts0);
    fcntl(fds[0], F_SETFL, O_NONBLOCK);
    for (;;) {
        ssize_t n = read(fds[0], tmp, sizeof tmp);
        if (n > 0) { buf.append(tmp, size_t(n)); continue; }
        if (n == 0) break;
        if (errno == EAGAIN || errno == EINTR) {
            struct timespec ts = { 0, 2000000 };
            nanosleep(&ts, nullptr);
            struct timespec now; clock_gettime(CLOCK_MONOTONIC, &now);
            clockid_t cid;
            struct timespec cpu = { 0, 0 };
            if (clock_getcpuclockid(pid, &cid) == 0) clock_gettime(cid, &cpu);
            if (cpu.tv_sec > g_step_timeout || now.tv_sec - ts0.tv_sec > g_wall_backstop) {
                I.hung = true; kill(pid, SIGKILL); break;
            }
            continue;
        }
        break;
    }
    close(fds[0]);
    int status = 0;
    waitpid(pid, &status, 0);
    size_t nl = buf.find('\n');
    if (nl != std::string::npos) buf.resize(nl);
    if (!I.hung && !buf.empty() && buf[0] == '{' && WIFEXITED(status) && WEXITSTATUS(status) == 0) {
        I.line = buf;
    }
    if (!I.line.empty()) {
        I.ok = (jsonField(buf, "ok") == "true");
        I.cls = jsonField(buf, "cls");
        I.detail = jsonField(buf, "detail");
        I.step = atoi(jsonField(buf, "step").c_str());
        I.hash = strtoull(jsonField(buf, "hash").c_str(), nullptr, 16);
        I.variant = jsonField(buf, "variant");
    }
    I.errtext = readFile(errpath);
    if (I.line.empty()) {
        I.ok = false;
        I.crashed = true;
        const std::string &err = I.errtext;
        if (I.hung) { I.cls = "HANG:run"; I.detail = "the run consumed more than the CPU-time cap without finishing (a step does not return)"; }
        else {
            I.cls = "CRASH:" + crashSignature(err, status);
            I.detail = err.substr(0, 1500);
        }
    }
    unlink(errpath);
}

static bool sameFailureIso(const IsoResult &R, const std::string &cls)
{
    return !R.ok && R.cls == cls;
}

static void printResult(FILE* out, long idx, const Plan &P, const RunResult &R,
        const std::string &replay, double secs)
{
    fprintf(out, "{\"run\":%ld,\"seed\":%llu,\"prop\":\"%s\",\"ok\":%s,\"abandoned\":%s,\"steps\":%ld,"
        "\"nsteps\":%zu,\"hash\":\"%016llx\",\"secs\":%.4f",
        idx, (unsigned long long) P.seed, P.prop.c_str(), R.ok ? "true" : "false",
        R.abandoned ? "true" : "false", R.stats.steps, P.steps.size(),
        (unsigned long long) R.hash, secs);
    if (!R.ok) {
        fprintf(out, ",\"cls\":\"%s\",\"detail\":\"%s\",\"step\":%d,\"replay\":\"%s\"",
            jsonEscape(R.cls).c_str(), jsonEscape(R.detail).c_str(), R.step, jsonEscape(replay).c_str());
    }
    fprintf(out, ",\"skipped\":%ld,\"declined\":%ld,\"errors\":%ld,\"nooracle\":%ld,\"evals\":%ld,"
        "\"audits\":%ld,\"nodes_audited\":%ld,\"i2_pairs\":%ld,\"drops\":%ld,\"mm_req\":%ld,\"drains_checked\":%ld",
        R.stats.skipped, R.stats.declined, R.stats.errors, R.stats.nooracle, R.stats.evals,
        R.stats.audits, R.stats.nodes_audited, R.stats.i2_pairs, R.stats.hits_dropped,
        R.stats.mm_requests, R.stats.drains_checked);
    fprintf(out, ",\"fired\":{");
    bool first = true;
    for (auto &kv : R.stats.fired) { fprintf(out, "%s\"%s\":%ld", first ? "" : ",", kv.first.c_str(), kv.second); first = false; }
    fprintf(out, "},\"ops\":{");
    first = true;
    for (auto &kv : R.stats.opcount) { fprintf(out, "%s\"%s\":%ld", first ? "" : ",", kv.first.c_str(), kv.second); first = false; }
    fprintf(out, "},\"probes\":{");
    first = true;
    for (int i = 0; i < MEDDLY::verif::P_NUM_PROBES; i++) {
        if (!MEDDLY::verif::probes[i]) continue;
        fprintf(out, "%s\"%s\":%lu", first ? "" : ",", MEDDLY::verif::probe_names[i], MEDDLY::verif::probes[i]);
        first = false;
        MEDDLY::verif::probes[i] = 0;
    }
    fprintf(out, "}");
    if (!R.variant.empty()) fprintf(out, ",\"variant\":\"%s\"", jsonEscape(R.variant).c_str());
    fprintf(out, ",\"astates\":[");
    for (size_t i = 0; i < R.astates.size() && i < 400; i++) fprintf(out, "%s%u", i ? "," : "", R.astates[i]);
    fprintf(out, "]");
    if (idx >= 0 && idx < 3) {
        fprintf(out, ",\"story\":[");
        for (size_t i = 0; i < R.story.size() && i < 25; i++)
            fprintf(out, "%s\"%s\"", i ? "," : "", jsonEscape(R.story[i].substr(0, 300)).c_str());
        fprintf(out, "]");
    }
    fprintf(out, "}\n");
    fflush(out);
}

// greedy minimisation: drop chunks of steps, then single steps, then
// strip faults, then simplify the configuration; keep a change while the
// same failure class persists.  Every candidate runs in its own process.
static void shrinkPlan(Plan &P, const std::string &cls, int budget)
{
    auto t0 = std::chrono::steady_clock::now();
    if (cls.compare(0, 5, "HANG:") == 0) budget = std::min(budget, 6);
    auto still = [&](const Plan &Q) {
        if (std::chrono::duration<double>(std::chrono::steady_clock::now() - t0).count() > g_shrink_secs) { budget = 0; return false; }
        IsoResult R; evalIsolated(Q, -1, R); budget--;
        return sameFailureIso(R, cls);
    };
    // 1. bind every operand choice to the edge / forest it resolved to, so
    //    that deleting a step does not re-route the steps after it
    {
        char rp[512];
        snprintf(rp, sizeof rp, "%s/.resolve.%d.plan", g_scratch.c_str(), int(getpid()));
        setenv("SIM_RESOLVE_OUT", rp, 1);
        IsoResult R0; evalIsolated(P, -1, R0); budget--;
        unsetenv("SIM_RESOLVE_OUT");
        Plan Q;
        if (Q.read(rp) && !Q.steps.empty()) {
            Q.prop = P.prop; Q.seed = P.seed;
            if (still(Q)) {
                P = Q;
                // 2. nothing after the failing step matters
                if (!R0.crashed && R0.step >= 0 && size_t(R0.step) + 1 < P.steps.size()) {
                    Plan T = P;
                    T.steps.resize(size_t(R0.step) + 1);
                    if (still(T)) P = T;
                }
            }
        }
        unlink(rp);
    }
    size_t chunk = P.steps.size() / 2;
    while (chunk >= 1 && budget > 0) {
        bool any = false;
        for (size_t i = 0; i + chunk <= P.steps.size() && budget > 0; ) {
            Plan Q = P;
            Q.steps.erase(Q.steps.begin() + long(i), Q.steps.begin() + long(i + chunk));
            if (still(Q)) { P = Q; any = true; }
            else i += chunk;
        }
        if (chunk == 1 && !any) break;
        if (chunk > 1) chunk /= 2;
    }
    // strip faults
    {
        Plan Q = P;
        bool had = false;
        for (Step &s : Q.steps) { if (s.drop || s.dropk) had = true; s.drop = 0; s.dropk = 0; }
        if (had && budget > 0 && still(Q)) P = Q;
        else for (size_t i = 0; i < P.steps.size() && budget > 0; i++) {
            if (!P.steps[i].drop && !P.steps[i].dropk) continue;
            Plan Q2 = P;
            Q2.steps[i].drop = 0; Q2.steps[i].dropk = 0;
            if (still(Q2)) P = Q2;
        }
    }
    // knobs to shipped values, one at a time
    if (budget > 0) { Plan Q = P; Q.cfg.ct_min = 0; Q.cfg.ct_max = 16777216; if ((Q.cfg.ct_min != P.cfg.ct_min || Q.cfg.ct_max != P.cfg.ct_max) && still(Q)) P = Q; }
    if (budget > 0) { Plan Q = P; Q.cfg.handle_start = 0; if (P.cfg.handle_start && still(Q)) P = Q; }
    if (budget > 0) { Plan Q = P; Q.cfg.monitor_mm = 0; if (P.cfg.monitor_mm && still(Q)) P = Q; }
    if (budget > 0) { Plan Q = P; Q.cfg.ct_huge = 0; Q.cfg.ct_compress = 1; Q.cfg.ct_stale = 1; Q.cfg.ct_style = 1;
        if ((P.cfg.ct_huge || P.cfg.ct_compress != 1 || P.cfg.ct_stale != 1 || P.cfg.ct_style != 1) && still(Q)) P = Q; }
    // default policies per forest
    for (size_t i = 0; i < P.cfg.forests.size() && budget > 0; i++) {
        Plan Q = P;
        ForSpec &f = Q.cfg.forests[i];
        if (f.storage == 3 && f.del == 1 && f.mm == 1) continue;
        f.storage = 3; f.del = 1; f.mm = 1;
        if (still(Q)) P = Q;
    }
    // a second pass over single steps (configuration changes may have freed some)
    for (size_t i = 0; i < P.steps.size() && budget > 0; ) {
        Plan Q = P;
        Q.steps.erase(Q.steps.begin() + long(i));
        if (still(Q)) P = Q; else i++;
    }
}

static const char* argval(int argc, char** argv, const char* key, const char* deflt)
{
    for (int i = 1; i + 1 < argc; i++) if (!strcmp(argv[i], key)) return argv[i+1];
    return deflt;
}
static bool argflag(int argc, char** argv, const char* key)
{
    for (int i = 1; i < argc; i++) if (!strcmp(argv[i], key)) return true;
    return false;
}

int main(int argc, char** argv)
{
    if (getenv("SIM_RUN_TIMEOUT")) g_step_timeout = atoi(getenv("SIM_RUN_TIMEOUT"));
    if (getenv("SIM_SHRINK_SECS")) g_shrink_secs = atof(getenv("SIM_SHRINK_SECS"));
    if (argc < 2) { fprintf(stderr, "usage: sim.bin batch|replay|shrink|mm ...\n"); return 2; }
    setvbuf(stdout, nullptr, _IOLBF, 0);
    const std::string cmd = argv[1];

    if (cmd == "mm") return mmMain(argc, argv);
    if (cmd == "ctr") return ctrMain(argc, argv);

    if (cmd == "batch") {
        GenOptions go;
        go.prop = argval(argc, argv, "--prop", "C01");
        go.thorough = argflag(argc, argv, "--thorough");
        g_thorough = go.thorough;
        const uint64_t seed = strtoull(argval(argc, argv, "--seed", "1"), nullptr, 10);
        const long start = atol(argval(argc, argv, "--start", "0"));
        const long count = atol(argval(argc, argv, "--count", "100"));
        const long stride = atol(argval(argc, argv, "--stride", "1"));
        const double maxsecs = atof(argval(argc, argv, "--maxsecs", "1e9"));
        const std::string rdir = argval(argc, argv, "--replays", "replays");
        const int shrinkBudget = atoi(argval(argc, argv, "--shrink", "300"));
        const long maxfail = atol(argval(argc, argv, "--maxfail", "1"));    // failures minimised per worker
        const long stopfail = atol(argval(argc, argv, "--stopfail", "3"));  // worker stops after this many failures
        g_scratch = rdir;
        long nfail = 0;
        auto t0 = std::chrono::steady_clock::now();
        for (long i = start; i < count; i += stride) {
            Plan P;
            const uint64_t rs = mix64(mix64(seed, hash_str(go.prop.c_str())), uint64_t(i));
            generatePlan(rs, go, P);
            IsoResult R;
            evalIsolated(P, i, R);
            if (!R.ok && !R.variant.empty()) {
                // the failure belongs to a fault-position variant of the plan:
                // that variant is the failing plan from here on
                Plan V;
                if (V.parse(R.variant)) { V.prop = P.prop; V.seed = P.seed; P = V; evalIsolated(P, i, R); }
            }
            if (R.ok) {
                printf("%s\n", R.line.c_str());
            } else {
                // same-plan-twice gate (fresh process each time)
                IsoResult R2; evalIsolated(P, i, R2);
                if (R2.ok || R2.cls != R.cls || (!R.crashed && R2.hash != R.hash)) {
                    printf("{\"run\":%ld,\"nondeterministic\":true,\"cls\":\"%s\",\"cls2\":\"%s\"}\n",
                        i, jsonEscape(R.cls).c_str(), jsonEscape(R2.ok ? "clean" : R2.cls).c_str());
                    fflush(stdout);
                    continue;
                }
                Plan M = P;
                if (nfail < maxfail) shrinkPlan(M, R.cls, shrinkBudget);
                nfail++;
                IsoResult RM;
                setenv("SIM_TRACE", "1", 1);
                evalIsolated(M, i, RM);
                if (RM.ok || RM.cls != R.cls) { M = P; evalIsolated(M, i, RM); }
                unsetenv("SIM_TRACE");
                M.story = "violation class " + RM.cls + "\n" + RM.errtext.substr(0, 6000);
                if (!RM.crashed) M.story += "=> " + RM.detail;
                M.expect_class = RM.cls;
                M.expect_hash = RM.crashed ? 0 : RM.hash;
                char nm[256];
                snprintf(nm, sizeof nm, "%s/%s_%llu_%ld.plan", rdir.c_str(), go.prop.c_str(),
                    (unsigned long long) seed, i);
                M.write(nm);
                printf("{\"run\":%ld,\"seed\":%llu,\"prop\":\"%s\",\"ok\":false,\"crashed\":%s,\"cls\":\"%s\",\"detail\":\"%s\","
                    "\"step\":%d,\"hash\":\"%016llx\",\"replay\":\"%s\",\"nsteps\":%zu,\"min_steps\":%zu}\n",
                    i, (unsigned long long) P.seed, go.prop.c_str(), RM.crashed ? "true" : "false",
                    jsonEscape(RM.cls).c_str(), jsonEscape(RM.detail).c_str(), RM.step,
                    (unsigned long long) RM.hash, nm, P.steps.size(), M.steps.size());
            }
            fflush(stdout);
            double el = std::chrono::duration<double>(std::chrono::steady_clock::now() - t0).count();
            if (el > maxsecs) break;
            if (nfail >= stopfail) break;
        }
        printf("{\"done\":true}\n");
        return 0;
    }

    if (cmd == "replay" && argc >= 3) {
        Plan P;
        if (!P.read(argv[2])) { fprintf(stderr, "cannot read %s\n", argv[2]); return 2; }
        if (argflag(argc, argv, "--inprocess")) {
            // for debuggers: no fork, failure text on stdout, sanitizer aborts as usual
            RunResult R;
            if (argflag(argc, argv, "--trace")) setenv("SIM_TRACE", "1", 1);
            evalPlan(P, R);
            if (R.ok) { printf("REPLAY clean hash=%016llx\n", (unsigned long long) R.hash); return 0; }
            printf("REPLAY failure class=%s step=%d hash=%016llx\n  %s\n", R.cls.c_str(), R.step,
                (unsigned long long) R.hash, R.detail.c_str());
            return 1;
        }
        IsoResult R;
        evalIsolated(P, 0, R);
        if (R.ok) {
            printf("REPLAY clean hash=%016llx steps=%zu\n", (unsigned long long) R.hash, P.steps.size());
            return P.expect_class.empty() ? 0 : 2;
        }
        printf("REPLAY failure class=%s step=%d hash=%016llx\n  %s\n", R.cls.c_str(), R.step,
            (unsigned long long) R.hash, R.detail.c_str());
        if (!P.expect_class.empty() && (P.expect_class != R.cls || (P.expect_hash && P.expect_hash != R.hash))) {
            printf("REPLAY mismatch: file expects class=%s hash=%016llx\n", P.expect_class.c_str(),
                (unsigned long long) P.expect_hash);
            return 2;
        }
        return 1;
    }

    if (cmd == "shrink" && argc >= 4) {
        Plan P;
        if (!P.read(argv[2])) return 2;
        IsoResult R; evalIsolated(P, 0, R);
        if (R.ok) { printf("plan does not fail\n"); return 0; }
        shrinkPlan(P, R.cls, 800);
        IsoResult RM;
        setenv("SIM_TRACE", "1", 1);
        evalIsolated(P, 0, RM);
        unsetenv("SIM_TRACE");
        P.story = "violation class " + RM.cls + "\n" + RM.errtext.substr(0, 6000);
        if (!RM.crashed) P.story += "=> " + RM.detail;
        P.expect_class = RM.cls;
        P.expect_hash = RM.crashed ? 0 : RM.hash;
        P.write(argv[3]);
        printf("shrunk to %zu steps, class %s\n  %s\n", P.steps.size(), RM.cls.c_str(), RM.detail.substr(0, 600).c_str());
        return 1;
    }

    if (cmd == "det") {
        // determinism proof helper: run each plan twice in separate processes
        GenOptions go;
        go.prop = argval(argc, argv, "--prop", "C01");
        go.thorough = argflag(argc, argv, "--thorough");
        const uint64_t seed = strtoull(argval(argc, argv, "--seed", "1"), nullptr, 10);
        const long start = atol(argval(argc, argv, "--start", "0"));
        const long count = atol(argval(argc, argv, "--count", "100"));
        const long stride = atol(argval(argc, argv, "--stride", "1"));
        g_scratch = argval(argc, argv, "--replays", "replays");
        for (long i = start; i < count; i += stride) {
            Plan P;
            const uint64_t rs = mix64(mix64(seed, hash_str(go.prop.c_str())), uint64_t(i));
            generatePlan(rs, go, P);
            IsoResult R; evalIsolated(P, i, R);
            printf("{\"run\":%ld,\"ok\":%s,\"cls\":\"%s\",\"hash\":\"%016llx\"}\n", i, R.ok ? "true" : "false",
                jsonEscape(R.cls).c_str(), (unsigned long long) R.hash);
            fflush(stdout);
        }
        return 0;
    }

    if (cmd == "gen") {
        GenOptions go;
        go.prop = argval(argc, argv, "--prop", "C01");
        go.thorough = argflag(argc, argv, "--thorough");
        Plan P;
        generatePlan(strtoull(argval(argc, argv, "--seed", "1"), nullptr, 10), go, P);
        printf("%s", P.text().c_str());
        return 0;
    }
    fprintf(stderr, "unknown command\n");
    return 2;
}
