// Simulator driver.
//   sim.bin batch  --prop Cxx --seed S --start i --count n --stride k
//                  [--thorough] --replays DIR --tag T
//   sim.bin replay FILE            exit 0: clean, 1: failure (matches the
//                                  expectation stored in FILE if any),
//                                  2: failure differs from expectation
//   sim.bin shrink FILE OUT        greedy minimisation, same failure class
//   sim.bin mm     --seed S --count n [--thorough]   (C18 harness, mm.cc)
#include "world.h"

#include <unistd.h>
#include <cstdio>
#include <cstdlib>
#include <cstring>
#include <chrono>
#include <set>
#include <sstream>

using namespace sim;

extern int mmMain(int argc, char** argv);

// classify sanitizer aborts by exit code 77 (see check.py)
extern "C" __attribute__((used)) const char* __asan_default_options()
{
    return "exitcode=77:detect_leaks=0:alloc_dealloc_mismatch=0:abort_on_error=0:allocator_may_return_null=1";
}

static std::string jsonEscape(const std::string &s)
{
    std::string o;
    for (char c : s) {
        if (c == '"' || c == '\\') { o += '\\'; o += c; }
        else if (c == '\n') o += "\\n";
        else if ((unsigned char)c < 32) o += ' ';
        else o += c;
    }
    return o;
}

struct RunResult {
    bool ok = true;
    std::string cls, detail;
    int step = -1;
    uint64_t hash = 0;
    bool abandoned = false;
    Stats stats;
    std::vector<Obs> obs;
    uint64_t state = 0;
    size_t nedges_peak = 0;
};

static void runPlan(const Plan &P, RunResult &R, bool cold = false)
{
    World W(P);
    W.cold_cache = cold;
    W.run();
    R.ok = !W.failed();
    R.cls = W.fail.cls();
    R.detail = W.fail.detail;
    R.step = W.fail.step;
    R.hash = W.eh.h;
    R.abandoned = W.abandoned;
    R.stats = W.stats;
    R.obs = W.obs;
    R.state = W.eh.h;
}

// --- differential variants ------------------------------------------
static void variantC07(const Plan &P, Plan &V)
{
    V = P;
    V.cfg.ct_style = (P.cfg.ct_style + 1 + int(P.seed % 3)) % 4;
    V.cfg.ct_stale = (P.cfg.ct_stale + 1) % 3;
    V.cfg.ct_min = 0;
    V.cfg.ct_max = 16777216;
    V.cfg.ct_compress = 1 - P.cfg.ct_compress;
    for (Step &s : V.steps) { s.drop = 0; s.dropk = 0; }
}
static void variantC12(const Plan &P, Plan &V)
{
    V = P;
    Rng R(P.seed ^ 0xC12);
    for (ForSpec &f : V.cfg.forests) {
        f.storage = 1 + (f.storage + int(R.below(2))) % 3;
        f.mm = (f.mm + 1 + int(R.below(3))) % 4;
        f.del = (f.del + 1 + int(R.below(2))) % 3;
    }
    V.cfg.handle_start = P.cfg.handle_start ? 0 : 8;
}

static bool compareObs(const RunResult &A, const RunResult &B, bool compareCounts,
        std::string &why)
{
    if (A.obs.size() != B.obs.size()) {
        std::ostringstream o;
        o << "runs recorded " << A.obs.size() << " and " << B.obs.size() << " observations";
        why = o.str();
        return false;
    }
    for (size_t i = 0; i < A.obs.size(); i++) {
        const Obs &x = A.obs[i], &y = B.obs[i];
        bool same = (x.outcome == y.outcome) && (x.h == y.h);
        if (same && compareCounts) same = (x.nodes == y.nodes) && (x.edges == y.edges);
        if (!same) {
            std::ostringstream o;
            o << "observation " << i << " differs: outcome " << x.outcome << "/" << y.outcome
              << " fingerprint " << x.h << "/" << y.h << " nodes " << x.nodes << "/" << y.nodes
              << " edges " << x.edges << "/" << y.edges;
            why = o.str();
            return false;
        }
    }
    return true;
}

// Full evaluation of one plan for a property: primary run plus the
// differential companion where the property asks for one.
static void evalPlan(const Plan &P, RunResult &R)
{
    runPlan(P, R);
    if (!R.ok || R.abandoned) return;
    if (P.prop == "C07") {
        Plan V; variantC07(P, V);
        RunResult B; runPlan(V, B, true);
        R.stats.fired["differential_cold_cache_run"]++;
        if (!B.ok) { R.ok = false; R.cls = B.cls; R.detail = "[cold-cache companion] " + B.detail; R.step = B.step; return; }
        std::string why;
        if (!B.abandoned && !compareObs(R, B, true, why)) {
            R.ok = false; R.cls = "D7:cache"; R.detail = "warm and cold compute tables give different results: " + why;
        }
    } else if (P.prop == "C12") {
        Plan V; variantC12(P, V);
        RunResult B; runPlan(V, B);
        R.stats.fired["differential_policy_run"]++;
        if (!B.ok) { R.ok = false; R.cls = B.cls; R.detail = "[policy companion] " + B.detail; R.step = B.step; return; }
        std::string why;
        if (!B.abandoned && !compareObs(R, B, true, why)) {
            R.ok = false; R.cls = "D12:policy"; R.detail = "storage/memory-manager/deletion policies change results: " + why;
        }
    }
}

static void printResult(FILE* out, long idx, const Plan &P, const RunResult &R,
        const std::string &replay, double secs)
{
    fprintf(out, "{\"run\":%ld,\"seed\":%llu,\"prop\":\"%s\",\"ok\":%s,\"abandoned\":%s,\"steps\":%ld,"
        "\"nsteps\":%zu,\"hash\":\"%016llx\",\"secs\":%.4f",
        idx, (unsigned long long) P.seed, P.prop.c_str(), R.ok ? "true" : "false",
        R.abandoned ? "true" : "false", R.stats.steps, P.steps.size(),
        (unsigned long long) R.hash, secs);
    if (!R.ok) {
        fprintf(out, ",\"cls\":\"%s\",\"detail\":\"%s\",\"step\":%d,\"replay\":\"%s\"",
            jsonEscape(R.cls).c_str(), jsonEscape(R.detail).c_str(), R.step, jsonEscape(replay).c_str());
    }
    fprintf(out, ",\"skipped\":%ld,\"declined\":%ld,\"errors\":%ld,\"nooracle\":%ld,\"evals\":%ld,"
        "\"audits\":%ld,\"nodes_audited\":%ld,\"i2_pairs\":%ld,\"drops\":%ld,\"mm_req\":%ld,\"drains_checked\":%ld",
        R.stats.skipped, R.stats.declined, R.stats.errors, R.stats.nooracle, R.stats.evals,
        R.stats.audits, R.stats.nodes_audited, R.stats.i2_pairs, R.stats.hits_dropped,
        R.stats.mm_requests, R.stats.drains_checked);
    fprintf(out, ",\"fired\":{");
    bool first = true;
    for (auto &kv : R.stats.fired) { fprintf(out, "%s\"%s\":%ld", first ? "" : ",", kv.first.c_str(), kv.second); first = false; }
    fprintf(out, "},\"ops\":{");
    first = true;
    for (auto &kv : R.stats.opcount) { fprintf(out, "%s\"%s\":%ld", first ? "" : ",", kv.first.c_str(), kv.second); first = false; }
    fprintf(out, "},\"probes\":{");
    first = true;
    for (int i = 0; i < MEDDLY::verif::P_NUM_PROBES; i++) {
        if (!MEDDLY::verif::probes[i]) continue;
        fprintf(out, "%s\"%s\":%lu", first ? "" : ",", MEDDLY::verif::probe_names[i], MEDDLY::verif::probes[i]);
        first = false;
        MEDDLY::verif::probes[i] = 0;
    }
    fprintf(out, "}}\n");
    fflush(out);
}

static bool sameFailure(const RunResult &R, const std::string &cls)
{
    return !R.ok && R.cls == cls;
}

// greedy minimisation: drop chunks of steps, then single steps, then
// strip faults; keep a change while the same failure class persists
static void shrinkPlan(Plan &P, const std::string &cls, int budget)
{
    size_t chunk = P.steps.size() / 2;
    while (chunk >= 1 && budget > 0) {
        bool any = false;
        for (size_t i = 0; i + chunk <= P.steps.size() && budget > 0; ) {
            Plan Q = P;
            Q.steps.erase(Q.steps.begin() + long(i), Q.steps.begin() + long(i + chunk));
            RunResult R; evalPlan(Q, R); budget--;
            if (sameFailure(R, cls)) { P = Q; any = true; }
            else i += chunk;
        }
        if (chunk == 1 && !any) break;
        if (chunk > 1) chunk /= 2;
    }
    // strip faults
    for (size_t i = 0; i < P.steps.size() && budget > 0; i++) {
        if (!P.steps[i].drop) continue;
        Plan Q = P;
        Q.steps[i].drop = 0;
        RunResult R; evalPlan(Q, R); budget--;
        if (sameFailure(R, cls)) P = Q;
    }
    // knobs to shipped values
    {
        Plan Q = P; Q.cfg.ct_min = 0; Q.cfg.handle_start = 0; Q.cfg.ct_max = 16777216;
        RunResult R; evalPlan(Q, R);
        if (sameFailure(R, cls)) P = Q;
    }
}

static const char* argval(int argc, char** argv, const char* key, const char* deflt)
{
    for (int i = 1; i + 1 < argc; i++) if (!strcmp(argv[i], key)) return argv[i+1];
    return deflt;
}
static bool argflag(int argc, char** argv, const char* key)
{
    for (int i = 1; i < argc; i++) if (!strcmp(argv[i], key)) return true;
    return false;
}

int main(int argc, char** argv)
{
    if (argc < 2) { fprintf(stderr, "usage: sim.bin batch|replay|shrink|mm ...\n"); return 2; }
    setvbuf(stdout, nullptr, _IOLBF, 0);
    const std::string cmd = argv[1];

    if (cmd == "mm") return mmMain(argc, argv);

    if (cmd == "batch") {
        GenOptions go;
        go.prop = argval(argc, argv, "--prop", "C01");
        go.thorough = argflag(argc, argv, "--thorough");
        const uint64_t seed = strtoull(argval(argc, argv, "--seed", "1"), nullptr, 10);
        const long start = atol(argval(argc, argv, "--start", "0"));
        const long count = atol(argval(argc, argv, "--count", "100"));
        const long stride = atol(argval(argc, argv, "--stride", "1"));
        const double maxsecs = atof(argval(argc, argv, "--maxsecs", "1e9"));
        const std::string rdir = argval(argc, argv, "--replays", "replays");
        const std::string tag = argval(argc, argv, "--tag", "w");
        const std::string cur = rdir + "/.cur." + tag + ".plan";
        auto t0 = std::chrono::steady_clock::now();
        for (long i = start; i < count; i += stride) {
            Plan P;
            const uint64_t rs = mix64(mix64(seed, hash_str(go.prop.c_str())), uint64_t(i));
            generatePlan(rs, go, P);
            // the plan about to run, for the supervisor if this process dies
            P.write(cur);
            printf("{\"begin\":%ld}\n", i);
            auto a = std::chrono::steady_clock::now();
            RunResult R;
            evalPlan(P, R);
            std::string replay;
            if (!R.ok) {
                // same-seed-twice gate
                RunResult R2; evalPlan(P, R2);
                if (R2.ok || R2.cls != R.cls || R2.hash != R.hash) {
                    printf("{\"run\":%ld,\"nondeterministic\":true,\"cls\":\"%s\",\"cls2\":\"%s\"}\n",
                        i, jsonEscape(R.cls).c_str(), jsonEscape(R2.cls).c_str());
                    fflush(stdout);
                    return 2;
                }
                Plan M = P;
                shrinkPlan(M, R.cls, 400);
                RunResult RM; evalPlan(M, RM);
                M.expect_class = RM.cls;
                M.expect_hash = RM.hash;
                char nm[256];
                snprintf(nm, sizeof nm, "%s/%s_%llu_%ld.plan", rdir.c_str(), go.prop.c_str(),
                    (unsigned long long) seed, i);
                M.write(nm);
                replay = nm;
                R.detail = RM.detail;
                R.step = RM.step;
            }
            double secs = std::chrono::duration<double>(std::chrono::steady_clock::now() - a).count();
            printResult(stdout, i, P, R, replay, secs);
            double el = std::chrono::duration<double>(std::chrono::steady_clock::now() - t0).count();
            if (el > maxsecs) break;
        }
        unlink(cur.c_str());
        printf("{\"done\":true}\n");
        return 0;
    }

    if (cmd == "replay" && argc >= 3) {
        Plan P;
        if (!P.read(argv[2])) { fprintf(stderr, "cannot read %s\n", argv[2]); return 2; }
        RunResult R;
        evalPlan(P, R);
        printf("%s", "");
        if (R.ok) {
            printf("REPLAY clean hash=%016llx steps=%zu\n", (unsigned long long) R.hash, P.steps.size());
            return P.expect_class.empty() ? 0 : 2;
        }
        printf("REPLAY failure class=%s step=%d hash=%016llx\n  %s\n", R.cls.c_str(), R.step,
            (unsigned long long) R.hash, R.detail.c_str());
        if (!P.expect_class.empty() && (P.expect_class != R.cls || (P.expect_hash && P.expect_hash != R.hash))) {
            printf("REPLAY mismatch: file expects class=%s hash=%016llx\n", P.expect_class.c_str(),
                (unsigned long long) P.expect_hash);
            return 2;
        }
        return 1;
    }

    if (cmd == "shrink" && argc >= 4) {
        Plan P;
        if (!P.read(argv[2])) return 2;
        RunResult R; evalPlan(P, R);
        if (R.ok) { printf("plan does not fail\n"); return 0; }
        shrinkPlan(P, R.cls, 600);
        RunResult RM; evalPlan(P, RM);
        P.expect_class = RM.cls;
        P.expect_hash = RM.hash;
        P.write(argv[3]);
        printf("shrunk to %zu steps, class %s\n", P.steps.size(), RM.cls.c_str());
        return 1;
    }

    if (cmd == "gen") {
        GenOptions go;
        go.prop = argval(argc, argv, "--prop", "C01");
        go.thorough = argflag(argc, argv, "--thorough");
        Plan P;
        generatePlan(strtoull(argval(argc, argv, "--seed", "1"), nullptr, 10), go, P);
        printf("%s", P.text().c_str());
        return 0;
    }
    fprintf(stderr, "unknown command\n");
    return 2;
}
