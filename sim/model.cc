#include "model.h"
#include "prng.h"

#include <cmath>
#include <cstdio>
#include <cstring>

namespace sim {

const char* fkName(FKind k)
{
    switch (k) {
        case FK_MTB: return "MTbool";
        case FK_MTI: return "MTint";
        case FK_MTR: return "MTreal";
        case FK_EVP: return "EV+";
        case FK_IDX: return "IndexSet";
        case FK_EVT: return "EV*";
        default:     return "?";
    }
}

// ---------------------------------------------------------------------
// Val
// ---------------------------------------------------------------------

bool Val::same(const Val &o) const
{
    if (t != o.t) return false;
    if (inf != o.inf) return false;
    if (inf) return true;
    if (t == R) return d == o.d;
    return i == o.i;
}

bool Val::close(const Val &o) const
{
    if (t != o.t) return false;
    if (inf != o.inf) return false;
    if (inf) return true;
    if (t != R) return i == o.i;
    if (d == o.d) return true;
    double m = std::fmax(1.0, std::fmax(std::fabs(d), std::fabs(o.d)));
    return std::fabs(d - o.d) <= 1e-4 * m;
}

uint64_t Val::hash() const
{
    uint64_t h = uint64_t(t) * 3 + (inf ? 1 : 0);
    if (inf) return mix64(h, 77);
    if (t == R) {
        // hash the float image so that tiny representation noise of exact
        // dyadic values cannot matter
        float f = float(d);
        if (f == 0.0f) f = 0.0f;    // -0 == +0
        uint32_t u;
        std::memcpy(&u, &f, 4);
        return mix64(h, u);
    }
    return mix64(h, uint64_t(i));
}

std::string Val::str() const
{
    char buf[64];
    if (inf) return "inf";
    switch (t) {
        case B: return i ? "T" : "F";
        case I: snprintf(buf, 64, "%ld", i); return buf;
        default: snprintf(buf, 64, "%g%s", d, inexact ? "~" : ""); return buf;
    }
}

// ---------------------------------------------------------------------
// Dom
// ---------------------------------------------------------------------

void Dom::finish()
{
    stride.resize(sizes.size());
    N = 1;
    for (size_t v = 0; v < sizes.size(); v++) {
        stride[v] = N;
        N *= sizes[v];
    }
}

void Dom::decode(long s, std::vector<int> &x) const
{
    x.resize(sizes.size() + 1);
    x[0] = 0;
    for (size_t v = 0; v < sizes.size(); v++) {
        x[v+1] = int(s % sizes[v]);
        s /= sizes[v];
    }
}

long Dom::encode(const std::vector<int> &x) const
{
    long s = 0;
    for (size_t v = 0; v < sizes.size(); v++) {
        s += x[v+1] * stride[v];
    }
    return s;
}

// ---------------------------------------------------------------------
// Table
// ---------------------------------------------------------------------

bool Table::exact() const
{
    for (const Val &x : v) if (x.inexact) return false;
    return true;
}

bool Table::pow2() const
{
    for (const Val &x : v) {
        if (x.inexact || x.inf || x.t != Val::R) return false;
        if (x.d == 0.0) continue;
        int e; const double m = std::frexp(std::fabs(x.d), &e);
        if (m != 0.5) return false;
    }
    return true;
}

bool Table::same(const Table &o) const
{
    if (rel != o.rel || v.size() != o.v.size()) return false;
    for (size_t i = 0; i < v.size(); i++) if (!v[i].same(o.v[i])) return false;
    return true;
}

bool Table::close(const Table &o) const
{
    if (rel != o.rel || v.size() != o.v.size()) return false;
    for (size_t i = 0; i < v.size(); i++) if (!v[i].close(o.v[i])) return false;
    return true;
}

uint64_t Table::hash() const
{
    uint64_t h = rel ? 11 : 7;
    for (const Val &x : v) h = mix64(h, x.hash());
    return h;
}

long Table::countNonDefault(const Val &deflt) const
{
    long c = 0;
    for (const Val &x : v) if (!x.same(deflt)) c++;
    return c;
}

Table Table::constant(const Dom &D, bool rel, const Val &c)
{
    Table t;
    t.rel = rel;
    t.N = D.N;
    t.v.assign(rel ? size_t(D.N * D.N) : size_t(D.N), c);
    return t;
}

// ---------------------------------------------------------------------
// kinds
// ---------------------------------------------------------------------

Val defaultOf(FKind k)
{
    switch (k) {
        case FK_MTB: return Val::b(false);
        case FK_MTI: return Val::n(0);
        case FK_MTR: return Val::r(0.0);
        case FK_EVP: return Val::pinf(Val::I);
        case FK_IDX: return Val::pinf(Val::I);
        case FK_EVT: return Val::r(0.0);
        default:     return Val();
    }
}

Val::T rangeOf(FKind k)
{
    switch (k) {
        case FK_MTB: return Val::B;
        case FK_MTI: case FK_EVP: case FK_IDX: return Val::I;
        default: return Val::R;
    }
}

bool kindHoldsValue(FKind k, const Val &v)
{
    if (v.t != rangeOf(k)) return false;
    if (v.inf) return (k == FK_EVP || k == FK_IDX);
    return true;
}

// ---------------------------------------------------------------------
// scalar operations
// ---------------------------------------------------------------------

const char* binName(BinOp o)
{
    static const char* names[] = {
        "UNION", "INTERSECTION", "DIFFERENCE",
        "PLUS", "MINUS", "MULTIPLY", "DIVIDE", "MODULO",
        "MAXIMUM", "MINIMUM", "DIST_MIN",
        "EQUAL", "NOT_EQUAL", "LESS_THAN", "LESS_THAN_EQUAL",
        "GREATER_THAN", "GREATER_THAN_EQUAL"
    };
    return (o < BO_NUM) ? names[o] : "?";
}

// Is a real value inside the sub-domain where MT-real terminals and float
// arithmetic are exact?  (multiples of 1/32 of moderate size; terminals
// are rounded to multiples of 1e-5 and stored as floats minus one bit)
static bool exactReal(double x)
{
    if (std::fabs(x) > 65536.0) return false;
    double y = x * 32.0;
    return y == std::floor(y);
}

static Val mkReal(double x, bool inex)
{
    // a negative zero is kept out of the identity oracles
    if (x == 0.0 && std::signbit(x)) return Val::r(0.0, true);
    return Val::r(x, inex || !exactReal(x));
}

static Val truth(FKind rk, bool b)
{
    switch (rangeOf(rk)) {
        case Val::B: return Val::b(b);
        case Val::I: return Val::n(b ? 1 : 0);
        default:     return Val::r(b ? 1.0 : 0.0);
    }
}

static const long TERM_LIMIT = (1L << 30);  // |int terminal| must stay below

ModelErr scalarBin(BinOp o, FKind ak, const Val &a, FKind bk, const Val &b,
        FKind rk, Val &out)
{
    // ---------------- boolean set algebra ----------------
    if (o == BO_UNION || o == BO_INTERSECTION || o == BO_DIFFERENCE) {
        if (ak != FK_MTB || bk != FK_MTB || rk != FK_MTB) return ME_UNDEFINED;
        bool x = a.i, y = b.i;
        switch (o) {
            case BO_UNION:          out = Val::b(x || y); break;
            case BO_INTERSECTION:   out = Val::b(x && y); break;
            default:                out = Val::b(x && !y); break;
        }
        return ME_NONE;
    }

    // ---------------- comparisons ----------------
    if (o >= BO_EQ && o <= BO_GE) {
        if (rangeOf(ak) != rangeOf(bk)) return ME_UNDEFINED;
        if (rangeOf(ak) == Val::B) return ME_UNDEFINED;
        if (a.inexact || b.inexact) return ME_UNDEFINED;
        bool res;
        if (a.inf || b.inf) {
            // +infinity compares above everything and equal to itself
            int ca = a.inf ? 1 : 0, cb = b.inf ? 1 : 0;
            double x = ca, y = cb;
            if (ca == cb) { x = 0; y = 0; }     // both infinite
            else if (ca)  { x = 1; y = 0; }
            else          { x = 0; y = 1; }
            switch (o) {
                case BO_EQ: res = (x == y); break;
                case BO_NE: res = (x != y); break;
                case BO_LT: res = (x <  y); break;
                case BO_LE: res = (x <= y); break;
                case BO_GT: res = (x >  y); break;
                default:    res = (x >= y); break;
            }
        } else {
            double x = a.num(), y = b.num();
            switch (o) {
                case BO_EQ: res = (x == y); break;
                case BO_NE: res = (x != y); break;
                case BO_LT: res = (x <  y); break;
                case BO_LE: res = (x <= y); break;
                case BO_GT: res = (x >  y); break;
                default:    res = (x >= y); break;
            }
        }
        out = truth(rk, res);
        return ME_NONE;
    }

    // ---------------- arithmetic ----------------
    // all three forests must be of one kind
    if (ak != bk || ak != rk) return ME_UNDEFINED;
    if (ak == FK_MTB || ak == FK_IDX) return ME_UNDEFINED;

    if (o == BO_DIST_MIN) {
        if (ak != FK_MTI && ak != FK_MTR) return ME_UNDEFINED;
        double x = a.num(), y = b.num();
        const Val* pick;
        if (x < 0) {
            if (y < 0) pick = (x < y) ? &a : &b;
            else       pick = &b;
        } else {
            if (y < 0) pick = &a;
            else       pick = (x < y) ? &a : &b;
        }
        out = *pick;
        return ME_NONE;
    }

    if (rangeOf(ak) == Val::I) {
        const bool evp = (ak == FK_EVP);
        if (a.inf || b.inf) {
            if (!evp) return ME_UNDEFINED;
            switch (o) {
                case BO_PLUS:
                    out = Val::pinf(Val::I); return ME_NONE;
                case BO_MINUS:
                    if (b.inf) return ME_SUB_INF;
                    out = Val::pinf(Val::I); return ME_NONE;
                case BO_MULTIPLY:
                    // inf * 0 has no agreed value
                    if ((!a.inf && a.i == 0) || (!b.inf && b.i == 0))
                        return ME_UNDEFINED;
                    out = Val::pinf(Val::I); return ME_NONE;
                case BO_DIVIDE:
                    if (b.inf) {
                        if (a.inf) return ME_INF_DIV_INF;
                        out = Val::n(0); return ME_NONE;
                    }
                    if (b.i == 0) return ME_DIV_ZERO;
                    out = Val::pinf(Val::I); return ME_NONE;
                case BO_MODULO:
                    if (b.inf && a.inf) return ME_INF_DIV_INF;
                    return ME_UNDEFINED;
                case BO_MAXIMUM:
                    out = Val::pinf(Val::I); return ME_NONE;
                case BO_MINIMUM:
                    out = a.inf ? b : a; return ME_NONE;
                default:
                    return ME_UNDEFINED;
            }
        }
        long x = a.i, y = b.i, z;
        // keep the model inside the range where long arithmetic is exact
        if (o == BO_MULTIPLY && (std::labs(x) > (1L << 31) || std::labs(y) > (1L << 31)) && x != 0 && y != 0) {
            if (std::labs(x) > (1L << 20) && std::labs(y) > (1L << 20)) return ME_UNDEFINED;
        }
        switch (o) {
            case BO_PLUS:       z = x + y; break;
            case BO_MINUS:      z = x - y; break;
            case BO_MULTIPLY:   z = x * y; break;
            case BO_DIVIDE:
                if (0 == y) return ME_DIV_ZERO;
                z = x / y; break;
            case BO_MODULO:
                if (0 == y) return ME_DIV_ZERO;
                z = x % y; break;
            case BO_MAXIMUM:    z = (x > y) ? x : y; break;
            case BO_MINIMUM:    z = (x < y) ? x : y; break;
            default:            return ME_UNDEFINED;
        }
        // integer terminals hold -2^30 .. 2^30 - 1
        if (!evp && (z >= TERM_LIMIT || z < -TERM_LIMIT)) return ME_OVERFLOW;
        if (evp && z < 0) {
            // EV+ functions with negative values are representable, but the
            // oracle only claims the non-negative range the library documents
            // for distances; keep it defined, values are plain longs.
        }
        out = Val::n(z);
        return ME_NONE;
    }

    // reals: MT real or EV*
    {
        if (o == BO_MODULO) return ME_UNDEFINED;
        double x = a.d, y = b.d, z;
        bool inex = a.inexact || b.inexact;
        // An inexact value carries an absolute error of about 1e-5 (terminal
        // rounding); arithmetic on it can amplify that without bound (small
        // divisors, cancellation), so the model gives no opinion.  Maximum and
        // minimum only select one of the operands.
        if (inex && o != BO_MAXIMUM && o != BO_MINIMUM) return ME_UNDEFINED;
        switch (o) {
            case BO_PLUS:       z = x + y; break;
            case BO_MINUS:      z = x - y; break;
            case BO_MULTIPLY:   z = x * y; break;
            case BO_DIVIDE:
                if (0.0 == y) return ME_DIV_ZERO;
                z = x / y; break;
            case BO_MAXIMUM:    z = (x > y) ? x : y; break;
            case BO_MINIMUM:    z = (x < y) ? x : y; break;
            default:            return ME_UNDEFINED;
        }
        out = mkReal(z, inex);
        return ME_NONE;
    }
}

ModelErr convertVal(FKind from, const Val &a, FKind to, Val &out)
{
    if (from == to || (from == FK_IDX && to == FK_EVP)) {
        out = a;
        return ME_NONE;
    }
    if (a.inf) {
        if (to == FK_EVP || to == FK_IDX) { out = a; return ME_NONE; }
        return ME_UNDEFINED;   // library leaves +infinity -> MT open
    }
    if (a.inexact && rangeOf(to) != Val::R) return ME_UNDEFINED;
    switch (rangeOf(to)) {
        case Val::B:
            out = Val::b(a.t == Val::R ? (a.d != 0.0) : (a.i != 0));
            return ME_NONE;
        case Val::I:
            if (a.t == Val::R) {
                out = Val::n(long(a.d));        // C++ truncation
            } else {
                out = Val::n(a.i);
            }
            // multi-terminal integers must fit a terminal
            if (to == FK_MTI && (out.i >= TERM_LIMIT || out.i < -TERM_LIMIT)) return ME_OVERFLOW;
            return ME_NONE;
        default:
            if (a.t == Val::R) out = a;
            else out = mkReal(double(a.i), false);
            return ME_NONE;
    }
}

void adjacency(const Table &R, std::vector<std::vector<int>> &succ,
        std::vector<std::vector<int>> &pred)
{
    const long N = R.N;
    succ.assign(N, std::vector<int>());
    pred.assign(N, std::vector<int>());
    for (long s = 0; s < N; s++) {
        for (long t = 0; t < N; t++) {
            if (R.v[s*N + t].nonzero()) {
                succ[s].push_back(int(t));
                pred[t].push_back(int(s));
            }
        }
    }
}

}
