// Seams the simulator owns:
//   * monitoring memory manager (decorator around the real styles)  -> I7
//   * compute-table user style that delegates to the built-in styles but
//     swaps the entry memory manager for the monitored one
//   * libc time/srand/rand/random (link-time wrappers): simulated clock/PRNG
//   * the F1 "drop this hit" callback and the H5 self-check report callback
#include "world.h"

#include "../src/storage/ct_styles.h"

#include <cstring>
#include <map>
#include <sstream>

namespace sim {

long g_sim_clock = 0;
World* g_world = nullptr;

// ----------------------------------------------------------------------
// Monitoring memory manager
// ----------------------------------------------------------------------

static std::string g_mon_error;
static long g_mon_requests = 0;
static long g_mon_recycles = 0;

static void monFail(const std::string &s)
{
    if (g_mon_error.empty()) g_mon_error = s;
}

class monitor_manager : public MEDDLY::memory_manager {
        MEDDLY::memory_manager* inner;
        unsigned gran;
        unsigned mult;
        // key: byte offset of the chunk (relative to the manager's base);
        // value: (handle, slots)
        struct chunk { MEDDLY::node_address h; size_t slots; };
        std::map<unsigned long, chunk> live;
        std::string tag;

        static unsigned multOf(const MEDDLY::memory_manager* m) {
            const char* a0 = (const char*) m->getChunkAddress(0);
            const char* a1 = (const char*) m->getChunkAddress(1);
            return unsigned(a1 - a0);
        }
        inline void sync() {
            setChunkBase(inner->getChunkAddress(0));
        }
    public:
        monitor_manager(MEDDLY::memory_manager* in, unsigned char g,
                MEDDLY::memstats &st, const char* name)
            : MEDDLY::memory_manager(multOf(in), name, st), inner(in),
              gran(g), mult(multOf(in)), tag(name)
        {
            sync();
        }
        virtual ~monitor_manager() {
            delete inner;
        }
        virtual bool mustRecycleManually() const {
            return inner->mustRecycleManually();
        }
        virtual bool firstSlotMustClearMSB() const {
            return inner->firstSlotMustClearMSB();
        }
        virtual bool lastSlotMustClearMSB() const {
            return inner->lastSlotMustClearMSB();
        }

        virtual MEDDLY::node_address requestChunk(size_t &numSlots) {
            const size_t asked = numSlots;
            MEDDLY::node_address h = inner->requestChunk(numSlots);
            sync();
            g_mon_requests++;
            if (0 == h) {
                // documented failure; nothing to record
                return h;
            }
            if (numSlots < asked) {
                std::ostringstream o;
                o << tag << ": chunk smaller than requested (" << numSlots
                  << " < " << asked << ")";
                monFail(o.str());
            }
            if (!inner->isValidHandle(h)) {
                monFail(tag + ": returned handle reported invalid");
            }
            const unsigned long off = (unsigned long)(mult) * h;
            const unsigned long len = (unsigned long)(gran) * numSlots;
            // overlap with neighbours?
            auto nx = live.lower_bound(off);
            if (nx != live.end()) {
                if (nx->first < off + len) {
                    std::ostringstream o;
                    o << tag << ": new chunk [" << off << "," << off+len
                      << ") overlaps live chunk at " << nx->first;
                    monFail(o.str());
                }
            }
            if (nx != live.begin()) {
                auto pv = nx; --pv;
                const unsigned long pend = pv->first
                    + (unsigned long)(gran) * pv->second.slots;
                if (pend > off) {
                    std::ostringstream o;
                    o << tag << ": new chunk [" << off << "," << off+len
                      << ") overlaps live chunk [" << pv->first << ","
                      << pend << ")";
                    monFail(o.str());
                }
            }
            chunk c; c.h = h; c.slots = numSlots;
            live[off] = c;
            return h;
        }

        virtual void recycleChunk(MEDDLY::node_address h, size_t numSlots) {
            g_mon_recycles++;
            const unsigned long off = (unsigned long)(mult) * h;
            auto it = live.find(off);
            if (it == live.end()) {
                std::ostringstream o;
                o << tag << ": recycle of a chunk that is not live (offset "
                  << off << ", " << numSlots << " slots)";
                monFail(o.str());
            } else {
                if (it->second.slots != numSlots) {
                    std::ostringstream o;
                    o << tag << ": recycle with " << numSlots
                      << " slots, chunk was handed out with "
                      << it->second.slots;
                    monFail(o.str());
                }
                checkMSB(it->second.h, it->second.slots);
                live.erase(it);
            }
            inner->recycleChunk(h, numSlots);
            sync();
        }

        // The *owner* must keep the MSB of the first/last slot clear
        void checkMSB(MEDDLY::node_address h, size_t slots) {
            if (!inner->firstSlotMustClearMSB() &&
                !inner->lastSlotMustClearMSB()) return;
            const unsigned char* p =
                (const unsigned char*) inner->getChunkAddress(h);
            // little endian: MSB is the top bit of the last byte of a slot
            if (inner->firstSlotMustClearMSB()) {
                if (p[gran-1] & 0x80) {
                    monFail(tag + ": owner left MSB set in first slot of a live chunk");
                }
            }
            if (inner->lastSlotMustClearMSB()) {
                if (p[gran*slots - 1] & 0x80) {
                    monFail(tag + ": owner left MSB set in last slot of a live chunk");
                }
            }
        }

        void checkAll() {
            unsigned long prev_end = 0;
            bool first = true;
            for (auto &kv : live) {
                if (!first && kv.first < prev_end) {
                    monFail(tag + ": live chunks overlap (scan)");
                }
                first = false;
                prev_end = kv.first + (unsigned long)(gran) * kv.second.slots;
                if (!inner->isValidHandle(kv.second.h)) {
                    monFail(tag + ": live handle reported invalid (scan)");
                }
                checkMSB(kv.second.h, kv.second.slots);
            }
        }

        virtual bool isValidHandle(MEDDLY::node_address h) const {
            return inner->isValidHandle(h);
        }
        virtual void reportStats(MEDDLY::output &s, const char* pad,
                bool human, bool details) const {
            inner->reportStats(s, pad, human, details);
        }
        virtual void dumpInternal(MEDDLY::output &s) const {
            inner->dumpInternal(s);
        }
        virtual MEDDLY::node_address getFirstAddress() const {
            return inner->getFirstAddress();
        }
        virtual bool isAddressInUse(MEDDLY::node_address addr) const {
            return inner->isAddressInUse(addr);
        }
        virtual MEDDLY::node_address getNextAddress(MEDDLY::node_address a)
            const {
            return inner->getNextAddress(a);
        }
        virtual void dumpInternalUnused(MEDDLY::output &s,
                MEDDLY::node_address addr) const {
            inner->dumpInternalUnused(s, addr);
        }
};

static std::set<monitor_manager*> g_monitors;

class tracked_monitor : public monitor_manager {
    public:
        tracked_monitor(MEDDLY::memory_manager* in, unsigned char g,
                MEDDLY::memstats &st, const char* name)
            : monitor_manager(in, g, st, name)
        {
            g_monitors.insert(this);
        }
        virtual ~tracked_monitor() {
            g_monitors.erase(this);
        }
};

class monitor_style : public MEDDLY::memory_manager_style {
        int which;   // 0 orig grid, 1 array+grid, 2 malloc, 3 heap, 4 freelists
        const char* nm;
    public:
        monitor_style(int w, const char* n)
            : MEDDLY::memory_manager_style(n), which(w), nm(n) { }
        const MEDDLY::memory_manager_style* real() const {
            switch (which) {
                case 0: return MEDDLY::ORIGINAL_GRID;
                case 1: return MEDDLY::ARRAY_PLUS_GRID;
                case 2: return MEDDLY::MALLOC_MANAGER;
                case 3: return MEDDLY::HEAP_MANAGER;
                default: return MEDDLY::FREELISTS;
            }
        }
        virtual MEDDLY::memory_manager* initManager(unsigned char granularity,
                unsigned char minsize, MEDDLY::memstats &stats) const
        {
            MEDDLY::memory_manager* in =
                real()->initManager(granularity, minsize, stats);
            if (!in) return nullptr;
            return new tracked_monitor(in, granularity, stats, nm);
        }
};

static monitor_style g_styles[5] = {
    monitor_style(0, "mon:ORIGINAL_GRID"),
    monitor_style(1, "mon:ARRAY_PLUS_GRID"),
    monitor_style(2, "mon:MALLOC_MANAGER"),
    monitor_style(3, "mon:HEAP_MANAGER"),
    monitor_style(4, "mon:FREELISTS")
};

const MEDDLY::memory_manager_style* monitoredStyle(int mm)
{
    if (mm < 0 || mm > 4) mm = 1;
    return &g_styles[mm];
}

void monitorReport(std::string &err)
{
    err = g_mon_error;
    g_mon_error.clear();
    if (g_world) {
        g_world->stats.mm_requests += g_mon_requests;
        g_world->stats.mm_recycles += g_mon_recycles;
    }
    g_mon_requests = 0;
    g_mon_recycles = 0;
}

void monitorCheckAll(std::string &err)
{
    for (monitor_manager* m : g_monitors) m->checkAll();
    monitorReport(err);
}

// ----------------------------------------------------------------------
// Compute table style
// ----------------------------------------------------------------------

class sim_ct_style : public MEDDLY::compute_table_style {
        MEDDLY::compute_table_style* inner;
        bool monitor;
    public:
        sim_ct_style(MEDDLY::compute_table_style* in, bool mon)
            : MEDDLY::compute_table_style(in->usesMonolithic()),
              inner(in), monitor(mon) { }
        virtual ~sim_ct_style() { delete inner; }
        virtual MEDDLY::compute_table* create(const MEDDLY::ct_settings &s)
            const
        {
            MEDDLY::ct_settings s2 = s;
            if (monitor) s2.MMS = monitoredStyle(4);
            return inner->create(s2);
        }
        virtual MEDDLY::compute_table* create(const MEDDLY::ct_settings &s,
                unsigned etid) const
        {
            MEDDLY::ct_settings s2 = s;
            if (monitor) s2.MMS = monitoredStyle(4);
            return inner->create(s2, etid);
        }
};

static sim_ct_style* g_ct_style = nullptr;

static bool dropHitCallback()
{
    return g_world ? g_world->dropDecision() : false;
}

static void selfCheckReport(const char* what, long a, long b)
{
    if (g_world) {
        std::ostringstream o;
        o << what << " (" << a << ", " << b << ")";
        g_world->failNow("H5", g_world->cur_family, o.str());
    }
}

void installSeams(const Config &c)
{
    removeSeams();
    MEDDLY::compute_table_style* in = nullptr;
    switch (c.ct_style) {
        case 0: in = new MEDDLY::monolithic_chained_style; break;
        case 1: in = new MEDDLY::monolithic_unchained_style; break;
        case 2: in = new MEDDLY::operation_chained_style; break;
        default: in = new MEDDLY::operation_unchained_style; break;
    }
    g_ct_style = new sim_ct_style(in, c.monitor_mm != 0);
    MEDDLY::ct_initializer::setUserStyle(g_ct_style);

    MEDDLY::verif::ct_min_size = c.ct_min;
    MEDDLY::verif::handle_start = c.handle_start;
    MEDDLY::verif::drop_hit = dropHitCallback;
    MEDDLY::verif::report = selfCheckReport;
}

void removeSeams()
{
    delete g_ct_style;
    g_ct_style = nullptr;
    MEDDLY::verif::drop_hit = nullptr;
    MEDDLY::verif::report = nullptr;
}

}

// ----------------------------------------------------------------------
// libc wrappers: simulated clock and PRNG for the only library code that
// reads them (random_reordering, dd_edge::deflt_RNG)
// ----------------------------------------------------------------------

static uint64_t g_libc_rng = 88172645463325252ULL;

extern "C" {

time_t __wrap_time(time_t* t)
{
    time_t v = (time_t) (1000000 + sim::g_sim_clock);
    if (t) *t = v;
    return v;
}

void __wrap_srand(unsigned s)
{
    g_libc_rng = 0x9e3779b97f4a7c15ULL ^ (uint64_t(s) << 1);
}

int __wrap_rand(void)
{
    return int(sim::splitmix64(g_libc_rng) & 0x7fffffff);
}

long __wrap_random(void)
{
    return long(sim::splitmix64(g_libc_rng) & 0x7fffffff);
}

}
