# Builds MEDDLY from /repo's *current working tree* (hooks on: -DMEDDLY_VERIF)
# plus the simulator, in two flavours.  Every check runs `make` first, so a
# check always reflects the sources that are in /repo right now.
REPO    ?= /repo
B       ?= build
CXX     := g++
STD     := -std=c++17
INC     := -I$(REPO) -I$(REPO)/src -Isim
DEFS    := -DHAVE_CONFIG_H -DMEDDLY_VERIF
WARN    := -w

LIBSRC  := $(filter-out $(REPO)/src/storage/realtest.cc,$(wildcard $(REPO)/src/*.cc $(REPO)/src/*/*.cc))
SIMSRC  := $(wildcard sim/*.cc)

ASAN_FLAGS  := -O1 -g -fno-omit-frame-pointer -fsanitize=address -fsanitize=bounds,null,return,unreachable,vptr -fno-sanitize-recover=bounds,null,return,unreachable,vptr
PLAIN_FLAGS := -O2 -g

WRAP := -Wl,--wrap=time -Wl,--wrap=srand -Wl,--wrap=rand -Wl,--wrap=random -Wl,--wrap=malloc -Wl,--wrap=realloc

define FLAVOUR
$(1)_LIBOBJ := $$(patsubst $(REPO)/src/%.cc,$(B)/$(1)/lib/%.o,$$(LIBSRC))
$(1)_SIMOBJ := $$(patsubst sim/%.cc,$(B)/$(1)/sim/%.o,$$(SIMSRC))

$(B)/$(1)/lib/%.o: $(REPO)/src/%.cc
	@mkdir -p $$(dir $$@)
	$(CXX) $(STD) $(DEFS) $(INC) $(WARN) $(2) -MMD -MP -c $$< -o $$@

$(B)/$(1)/sim/%.o: sim/%.cc
	@mkdir -p $$(dir $$@)
	$(CXX) $(STD) $(DEFS) $(INC) -Wall -Wno-unused-function $(2) -MMD -MP -c $$< -o $$@

$(B)/$(1)/sim.bin: $$($(1)_LIBOBJ) $$($(1)_SIMOBJ)
	$(CXX) $(2) $(WRAP) -o $$@ $$^ -lgmp

-include $$($(1)_LIBOBJ:.o=.d) $$($(1)_SIMOBJ:.o=.d)
endef

$(eval $(call FLAVOUR,asan,$(ASAN_FLAGS)))
$(eval $(call FLAVOUR,plain,$(PLAIN_FLAGS)))

.PHONY: all asan plain lib-asan lib-plain clean
all: asan plain
asan:  $(B)/asan/sim.bin
plain: $(B)/plain/sim.bin
lib-asan:  $(asan_LIBOBJ)
lib-plain: $(plain_LIBOBJ)
clean:
	rm -rf $(B)
