#!/usr/bin/env python3
"""Per-property check driver.

  check.py Cxx [quick|thorough]

Rebuilds the simulator from /repo's working tree (hooks on), runs seeded
simulation batches on all cores, gates every failure by a fresh-process
replay, separates known findings (known_findings.txt) from new violations,
writes evidence/<id>.json.  Exit 0: property held on everything explored
(known findings are printed as KNOWN-FINDING lines); exit 1: VIOLATION line;
exit 2: the checker itself is broken (build failure, irreproducible failure).
"""
import fcntl, json, os, re, subprocess, sys, time

ROOT = os.path.dirname(os.path.abspath(__file__))
os.chdir(ROOT)
BIN = os.path.join(ROOT, "build/asan/sim.bin")
WORKERS = int(os.environ.get("VERIF_WORKERS", "16"))

QUICK = {"runs": 640, "secs": 45}
THOROUGH = {"runs": 400000, "secs": 600}

CHAR = {
    "C01": [r"^rebuild$"], "C02": [r"^mk"], "C03": [r"^mk"],
    "C04": [r"^bin:(UNION|INTERSECTION|DIFFERENCE|CROSS)$", r"^un:COMPLEMENT$"],
    "C05": [r"^bin:(PLUS|MINUS|MULTIPLY|DIVIDE|MODULO|MAXIMUM|MINIMUM|DIST_MIN|EQUAL|NOT_EQUAL|LESS|GREATER)", r"^un:", r"^range:"],
    "C06": [r"^release$", r"^drain$", r"^masscopy$", r"^ctr_"], "C07": [r"^bin$", r"^ctr_"],
    "C08": [r"^REACH_"], "C09": [r"IMAGE", r"_MULTIPLY$"], "C10": [r"^copy:"],
    "C11": [r"^iter", r"^card_ok$", r"^counts$"], "C12": [r"^bin$"],
    "C13": [r"^reorder:"], "C14": [r"^io(read)?:"], "C15": [r"^index:convert$"],
    "C16": [r"^misuse:"], "C17": [r"^killforest$", r"^killdomain$", r"^restart$"],
    "C18": [r"."], "C20": [r"^satpart:"],
}

def prop_of(cls, prop_running):
    """Which property does a failure class (monitor:family) contradict?"""
    mon, _, fam = cls.partition(":")
    if fam == "misuse": return "C16"
    if fam == "lifecycle": return "C17"
    table = {"I2": "C01", "I3": "C02", "I4": "C06", "I6": "C06", "H5": "C06",
             "I5": "C07", "D7": "C07", "I7": "C18", "I8": "C17", "D12": "C12",
             "T1": "C11", "N1": "C11", "N2": "C11", "F1": "C14", "X2": "C15",
             "V1": "C13", "R1": "C05", "O1": "C04"}
    famtab = {"construct": "C03", "setalg": "C04", "arith": "C05", "range": "C05",
              "copy": "C10", "image": "C09", "reach": "C08", "satpart": "C20",
              "reorder": "C13", "index": "C15", "io": "C14", "iterate": "C11",
              "count": "C11", "canon": "C01", "cache": "C07", "policy": "C12"}
    if mon in ("I1", "O2", "X1", "E1") and fam in famtab: return famtab[fam]
    if mon == "I2" and fam in ("copy", "reach", "satpart"): return famtab[fam]
    if mon in table: return table[mon]
    if mon == "I1": return "C06"        # a held edge changed its function
    return prop_running

def build():
    with open(os.path.join(ROOT, ".build.lock"), "w") as lk:
        fcntl.flock(lk, fcntl.LOCK_EX)
        r = subprocess.run(["make", "-C", ROOT, "-j16", "asan"], stdout=subprocess.PIPE,
                           stderr=subprocess.STDOUT, text=True)
        if r.returncode != 0:
            print(r.stdout[-4000:])
            print("CHECK-BROKEN: build of the simulator against /repo failed")
            sys.exit(2)

def load_known():
    """finding: property=<id> id=<name> probe=<plan> match=<regex, may contain spaces> :: description"""
    out = []
    p = os.path.join(ROOT, "known_findings.txt")
    if not os.path.exists(p): return out
    pat = re.compile(r"^finding:\s+property=(\S+)\s+id=(\S+)\s+probe=(\S+)\s+match=(.*?)\s+::\s+(.*)$")
    for line in open(p):
        m = pat.match(line.strip())
        if not m: continue
        out.append({"property": m.group(1), "id": m.group(2), "probe": m.group(3), "match": m.group(4), "desc": m.group(5)})
    return out

def replay(path):
    if path.endswith(".mm"):
        kv = {}
        for l in open(path):
            t = l.split(None, 1)
            if len(t) == 2: kv[t[0]] = t[1].strip()
        cmd = [BIN, "mm", "--one", kv["runseed"], "--faults", kv["faults"]]
        if kv.get("thorough") == "1": cmd.append("--thorough")
    elif path.endswith(".ctr"):
        kv = {}
        for l in open(path):
            t = l.split(None, 1)
            if len(t) == 2 and not l.startswith("#"): kv[t[0]] = t[1].strip()
        cmd = [BIN, "ctr", "--prop", kv["prop"], "--one", kv["runseed"], "--ops", kv["ops"], "--skip", kv.get("skip", "-1")]
        if kv.get("thorough") == "1": cmd.append("--thorough")
    else:
        cmd = [BIN, "replay", path]
    r = subprocess.run(cmd, stdout=subprocess.PIPE, stderr=subprocess.STDOUT, text=True, timeout=600)
    return r.returncode, r.stdout

def main():
    prop = sys.argv[1]
    tier = sys.argv[2] if len(sys.argv) > 2 else os.environ.get("VERIF_TIER", "quick")
    if tier not in ("quick", "thorough"): tier = "quick"
    seed = int(os.environ.get("VERIF_SEED", "20260922"))
    budget = dict(THOROUGH if tier == "thorough" else QUICK)
    if os.environ.get("VERIF_RUNS"): budget["runs"] = int(os.environ["VERIF_RUNS"])
    if os.environ.get("VERIF_SECS"): budget["secs"] = int(os.environ["VERIF_SECS"])
    t0 = time.time()
    build()
    os.makedirs("replays", exist_ok=True)
    os.makedirs("evidence", exist_ok=True)
    N = budget["runs"]
    if prop == "C18": N *= 12       # a stand-alone run costs a few milliseconds
    env = dict(os.environ)
    env["MALLOC_PERTURB_"] = "165"

    def spawn(w, start):
        tag = "%s_%d" % (prop, w)
        if prop == "C18":
            cmd = [BIN, "mm", "--seed", str(seed), "--start", str(start), "--count", str(N),
                   "--stride", str(WORKERS), "--maxsecs", str(budget["secs"]), "--replays", "replays"]
        else:
            cmd = [BIN, "batch", "--prop", prop, "--seed", str(seed), "--start", str(start),
                   "--count", str(N), "--stride", str(WORKERS), "--maxsecs", str(budget["secs"]),
                   "--replays", "replays", "--tag", tag]
        if tier == "thorough": cmd.append("--thorough")
        return subprocess.Popen(cmd, stdout=subprocess.PIPE, stderr=subprocess.PIPE, text=True, env=env)

    results, failures, broken = [], [], []
    procs = {w: spawn(w, w) for w in range(WORKERS)}
    deadline = t0 + budget["secs"] * 3 + 1200
    for w, p in procs.items():
        try:
            out, err = p.communicate(timeout=max(1, deadline - time.time()))
        except subprocess.TimeoutExpired:
            p.kill(); out, err = p.communicate()
            broken.append("worker %d exceeded the wall-clock cap" % w)
        done = False
        last_begin = None
        for line in out.splitlines():
            if not line.startswith("{"): continue
            try: j = json.loads(line)
            except Exception: continue
            if "begin" in j: last_begin = j; continue
            if j.get("done"): done = True; continue
            if j.get("nondeterministic"):
                broken.append("run %s did not fail the same way twice (%s / %s)" % (j.get("run"), j.get("cls"), j.get("cls2"))); continue
            if j.get("ok", True): results.append(j)
            else: failures.append(j)
        if not done and prop == "C18" and last_begin is not None and p.returncode not in (0, 2):
            # the stand-alone memory-manager simulation runs in the worker itself:
            # a sanitizer abort or a signal inside run `last_begin` is a failure of that run
            path = "replays/C18_%d_%s_crash.mm" % (seed, last_begin["begin"])
            with open(path, "w") as f:
                f.write("MMREPLAY 1\nrunseed %s\nfaults %s\nthorough %d\nops -1\nexpect crash\n" %
                        (last_begin["runseed"], last_begin["faults"], 1 if tier == "thorough" else 0))
            first = next((l for l in err.splitlines() if "ERROR:" in l or "runtime error" in l), "process died, rc=%s" % p.returncode)
            failures.append({"run": last_begin["begin"], "cls": "CRASH:mm", "detail": first[:300], "replay": path, "crashed": True})
        elif not done and not any("worker %d " % w in b for b in broken):
            broken.append("worker %d (supervisor process) ended early, rc=%s: %s" % (w, p.returncode, err[-300:]))
    restarts = 0
    ctr_runs = 0
    if prop in ("C06", "C07"):
        # second simulation for the same property: the width-adapting counter arrays
        # behind incoming counts (C06) and cache counts (C07), driven stand-alone (sim/ctr.cc)
        cmd = [BIN, "ctr", "--prop", prop, "--seed", str(seed), "--count", "12000" if tier == "thorough" else "800",
               "--maxsecs", "240" if tier == "thorough" else "40", "--replays", "replays"]
        if tier == "thorough": cmd.append("--thorough")
        p = subprocess.run(cmd, stdout=subprocess.PIPE, stderr=subprocess.PIPE, text=True, env=env)
        done = False
        for line in p.stdout.splitlines():
            if not line.startswith("{"): continue
            try: j = json.loads(line)
            except Exception: continue
            if "begin" in j: continue
            if j.get("done"): done = True; continue
            if j.get("nondeterministic"):
                broken.append("counter-array run %s did not fail the same way twice" % j.get("run")); continue
            ctr_runs += 1
            if j.get("ok", True): results.append(j)
            else: failures.append(j)
        if not done:
            broken.append("counter-array simulation ended early, rc=%s: %s" % (p.returncode, p.stderr[-300:]))

    # ---- gate and classify
    known = [k for k in load_known()]
    viol, knownhits = [], []
    for f in failures:
        rc, out = replay(f["replay"])
        if f.get("cls") == "CRASH:mm" and rc not in (0, 1, 2): rc = 1     # died again in a fresh process
        if rc != 1:
            broken.append("failure of run %s does not reproduce in a fresh process (rc=%s)" % (f["run"], rc)); continue
        pid = prop_of(f["cls"], prop)
        text = f["cls"] + "|" + f.get("detail", "") + "|" + out[-3000:]
        k = next((k for k in known if k.get("property") == pid and re.search(k.get("match", "$^"), text)), None)
        (knownhits if k else viol).append((pid, f, k))
    # ---- probes of the known findings of this property
    known_lines = []
    for k in known:
        if k.get("property") != prop: continue
        probe = k.get("probe")
        still = True
        if probe and os.path.exists(probe):
            rc, out = replay(probe)
            still = (rc != 0)
        if still: known_lines.append("KNOWN-FINDING: property=%s %s %s" % (prop, k.get("id", ""), k["desc"]))
        else: print("NOTE: known finding %s no longer reproduces (%s)" % (k.get("id"), probe))
    for pid, f, k in knownhits:
        line = "KNOWN-FINDING: property=%s %s %s" % (pid, k.get("id", ""), k["desc"])
        if line not in known_lines: known_lines.append(line)

    # ---- evidence
    wall = time.time() - t0
    okruns = [r for r in results] + [f for f in failures if "ops" in f]
    pats = [re.compile(x) for x in CHAR.get(prop, [r"."])]
    def nontrivial(r):
        return any(p.search(k) and v > 0 for k, v in r.get("ops", {}).items() for p in pats)
    distinct = len({r["hash"] for r in okruns if nontrivial(r)})
    fired, ops, probes = {}, {}, {}
    for r in okruns:
        for k, v in r.get("fired", {}).items(): fired[k] = fired.get(k, 0) + v
        for k, v in r.get("ops", {}).items(): ops[k] = ops.get(k, 0) + v
        for k, v in r.get("probes", {}).items(): probes[k] = probes.get(k, 0) + v
    fired["ct_hits_dropped"] = sum(r.get("drops", 0) for r in okruns)
    steps = sum(r.get("steps", 0) for r in okruns)
    samples = []
    for r in sorted(okruns, key=lambda r: r.get("run", 0)):
        if len(samples) >= 3: break
        if "story" not in r and prop != "C18": continue
        samples.append({"run": r.get("run"), "seed": r.get("seed"), "steps": r.get("steps"),
                        "first_steps": r.get("story"), "ops": r.get("ops"),
                        "fired": r.get("fired"), "event_hash": r.get("hash"), "detail": {k: v for k, v in r.items() if k in ("style", "gran", "requests", "recycles", "failures_injected", "peak_live")},
                        "replay": "build/asan/sim.bin gen --prop %s --seed %s%s > p.plan && build/asan/sim.bin replay p.plan" % (prop, r.get("seed"), " --thorough" if tier == "thorough" else "")})
    astates = set()
    for r in okruns: astates.update(r.get("astates", []))
    ev = {
        "property_id": prop, "tier": tier, "seed": seed, "level": "exploration",
        "coverage": {
            "evaluations": len(okruns),
            "distinct_nontrivial": distinct,
            "rule": "one evaluation = one simulated run (seeded plan of API steps under a seeded fault schedule, all monitors after every step); "
                    "counted as non-trivial when the run executed at least one step characteristic of this property (%s) and distinct by its final event-log hash" % ", ".join(CHAR.get(prop, ["."]))
                    + ("; counter_array_runs of the evaluations are runs of the stand-alone counter-array simulation (sim/ctr.cc: seeded increments, decrements, swaps and resizes of the real counter_array against a vector model), distinct by the hash of their size/width sequence" if prop in ("C06", "C07") else ""),
            "samples": samples or [{"note": "no run completed"}],
            "simulated_steps": steps,
            "distinct_abstract_states": len(astates),
            "abstract_state_measure": "per forest: log2 buckets of active nodes, of the highest handle in use and of the number of held edges, hashed together after every step",
            "simulated_time_steps": steps,
            "runs_per_hour": int(len(okruns) / max(wall, 1e-3) * 3600),
            "faults_fired": fired,
            "reach_probes": probes,
            "operations": ops,
            "oracle_free_results": sum(r.get("nooracle", 0) for r in okruns),
            "declined_by_library": sum(r.get("declined", 0) for r in okruns),
            "skipped_steps": sum(r.get("skipped", 0) for r in okruns),
            "function_evaluations": sum(r.get("evals", 0) for r in okruns),
            "nodes_audited": sum(r.get("nodes_audited", 0) for r in okruns),
            "workers": WORKERS,
            "counter_array_runs": ctr_runs,
            "failing_runs": len(failures),
            "isolation": "every run, every gate re-run and every minimisation candidate executes in its own forked process",
            "real_code": "all of /repo/src compiled from the working tree with -DMEDDLY_VERIF (ASan+UBSan subset)",
            "stubs": "libc time/srand/rand/random; in-memory disk behind MEDDLY::input/output; malloc/realloc failure seam (C18 only)",
            "known_findings_reported": known_lines,
        },
        "assumptions": ["bounded domains (<= 96 states for sets, <= 24 for relations)", "EV* forests only in the C01/C05/C10 profiles, compared with the library's own tolerance",
                        "configurations listed in known_findings.txt are exercised by their probe plans only"],
        "wall_s": round(wall, 2),
        "violations": len(viol),
    }
    with open("evidence/%s.json" % prop, "w") as f: json.dump(ev, f, indent=1)

    for l in known_lines: print(l)
    print("SUMMARY property=%s tier=%s seed=%d runs=%d distinct=%d steps=%d wall=%.1fs violations=%d" %
          (prop, tier, seed, len(okruns), distinct, steps, wall, len(viol)))
    if broken:
        for b in broken: print("CHECK-BROKEN: " + b)
        sys.exit(2)
    if viol:
        for pid, f, _ in viol:
            print("VIOLATION property=%s replay=%s" % (pid, os.path.join(ROOT, f["replay"])))
            print("   class=%s %s" % (f.get("cls"), f.get("detail", "")[:300]))
        sys.exit(1)
    if len(okruns) < 2 or distinct < 2:
        print("CHECK-BROKEN: too few runs completed")
        sys.exit(2)
    sys.exit(0)

if __name__ == "__main__":
    main()
