// C13/C02: variable reordering of a (fully- or quasi-reduced) MT relation
// forest whose variables have different sizes.  After a swap the rebuilt
// unprimed nodes sit at level+1, which now belongs to the LOWER variable, but
// the duplicate-resolution pass of swapAdjacentVariablesByVarSwap sized and
// scanned them with the HIGHER variable's size: nodes with too many (or too
// few) entries were stored.  Observable as a changed function or as a graph
// that differs from the same function built natively in the new order.
#include "meddly.h"
#include <cstdio>
#include <vector>
using namespace MEDDLY;
static void build(forest* f, dd_edge &u, dd_edge &a, dd_edge &b) {
  // minterm positions are LEVELS: place variable values through the forest's order
  auto put = [&](minterm &m, int v, int from, int to) { m.setVars(f->getLevelByVar(v), from, to); };
  minterm m1(f), m2(f);
  put(m1,1,DONT_CARE,1); put(m1,2,DONT_CARE,3); put(m1,3,DONT_CARE,DONT_CARE); m1.setValue(rangeval(true));
  put(m2,1,1,1); put(m2,2,2,0); put(m2,3,DONT_CARE,1); m2.setValue(rangeval(true));
  m1.buildFunction(rangeval(false), a);
  m2.buildFunction(rangeval(false), b);
  apply(UNION, b, a, u);
}
int main() {
  initialize();
  int sizes[] = {2,4,3};
  domain* d = domain::createBottomUp(sizes, 3);
  policies p(true); p.setFullyReduced();
  forest* f = forest::create(d, true, range_type::BOOLEAN, edge_labeling::MULTI_TERMINAL, p);
  forest* g = forest::create(d, true, range_type::BOOLEAN, edge_labeling::MULTI_TERMINAL, p);
  int l2v[] = {0,3,2,1};
  dd_edge u(f), ua(f), ub(f), native(g), na(g), nb(g), moved(g);
  build(f, u, ua, ub);      // all three edges stay alive across the reordering
  std::vector<bool> before;
  minterm q(f);
  int s[4] = {0,2,4,3};
  for (int a1=0;a1<s[1];a1++) for (int a2=0;a2<s[2];a2++) for (int a3=0;a3<s[3];a3++)
  for (int b1=0;b1<s[1];b1++) for (int b2=0;b2<s[2];b2++) for (int b3=0;b3<s[3];b3++) {
    q.setVars(1,a1,b1); q.setVars(2,a2,b2); q.setVars(3,a3,b3);
    rangeval rv; u.evaluate(q, rv); before.push_back(bool(rv));
  }
  f->reorderVariables(l2v);
  g->reorderVariables(l2v);       // empty forest: trivially correct
  build(g, native, na, nb);       // the same functions built natively in the new order
  int bad = 0; size_t idx = 0;
  for (int a1=0;a1<s[1];a1++) for (int a2=0;a2<s[2];a2++) for (int a3=0;a3<s[3];a3++)
  for (int b1=0;b1<s[1];b1++) for (int b2=0;b2<s[2];b2++) for (int b3=0;b3<s[3];b3++) {
    int av[4]={0,a1,a2,a3}, bv[4]={0,b1,b2,b3};
    for (int k=1;k<=3;k++) { int v=f->getVarByLevel(k); q.setVars(k, av[v], bv[v]); }
    rangeval rv; u.evaluate(q, rv);
    if (bool(rv) != before[idx++]) bad++;
  }
  apply(COPY, u, moved);
  long c1, c2; apply(CARDINALITY, u, c1); apply(CARDINALITY, native, c2);
  printf("changed values: %d; nodes after reordering %lu, native %lu; cardinality %ld vs %ld; copy==native: %d\n",
         bad, u.getNodeCount(), native.getNodeCount(), c1, c2, int(moved == native));
  printf("forest node counts: reordered %ld, native %ld\n", f->getCurrentNumNodes(), g->getCurrentNumNodes());
  bool ok = (bad == 0) && (u.getNodeCount() == native.getNodeCount()) && (c1 == c2) && (moved == native)
            && (ua.getNodeCount() == na.getNodeCount()) && (ub.getNodeCount() == nb.getNodeCount());
  cleanup();
  return ok ? 0 : 1;
}
