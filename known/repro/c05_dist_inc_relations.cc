#include "meddly.h"
#include <cstdio>
using namespace MEDDLY;
int main(int argc, char** argv) {
  int sred = argc > 1 ? atoi(argv[1]) : 1, rred = argc > 2 ? atoi(argv[2]) : 2;
  long cval = argc > 3 ? atol(argv[3]) : 1;
  initialize();
  int sizes[] = {3};
  domain* d = domain::createBottomUp(sizes, 1);
  auto mk = [&](int red) { policies p(true);
    if (red==2) p.setIdentityReduced(); else if (red==1) p.setQuasiReduced(); else p.setFullyReduced();
    return forest::create(d, true, range_type::INTEGER, edge_labeling::MULTI_TERMINAL, p); };
  forest* fs = mk(sred); forest* fr = mk(rred);
  dd_edge a(fs), c(fr);
  fs->createConstant(rangeval(cval), a);
  try {
  apply(DIST_INC, a, c);
  FILE_output out(stdout);
  c.showGraph(out);
  minterm q(fr);
  for (int x=0;x<3;x++) for (int y=0;y<3;y++) { q.setVars(1,x,y); rangeval rv; c.evaluate(q, rv); printf("%ld ", long(rv)); }
  printf("\n");
  } catch (MEDDLY::error e) { printf("error %s %s:%d\n", e.getName(), e.getFile(), e.getLine()); }
  cleanup();
}
