// C05/C09: in-place use of an operation on an EV+ forest - the same dd_edge
// object passed as operand and as result, e.g. apply(PLUS, x, y, x) or
// x += y.  binary_operation::compute() handed the operand's edge value (by
// const reference) and the result's edge value (by reference) to the
// recursion; with the same dd_edge they are the same storage, so writing the
// result's edge value destroyed the operand's before it was fully used.
// Multi-terminal forests carry no edge values and were unaffected.
#include "meddly.h"
#include <cstdio>
using namespace MEDDLY;
static long at(const dd_edge &e, forest* f, int x1, int x2) {
  minterm m(f); m.setVar(1, x1); m.setVar(2, x2);
  rangeval rv; e.evaluate(m, rv); return long(rv);
}
int main() {
  initialize();
  int sizes[] = {2,2};
  domain* d = domain::createBottomUp(sizes, 2);
  forest* f = forest::create(d, false, range_type::INTEGER, edge_labeling::EVPLUS);
  forest* fr = forest::create(d, true, range_type::BOOLEAN, edge_labeling::MULTI_TERMINAL);
  rangeval t[] = { rangeval(3L), rangeval(5L) };
  dd_edge x(f), y(f), sum(f);
  f->createEdgeForVar(1, false, t, x);        // x = 3 or 5
  f->createEdgeForVar(2, false, t, y);        // y = 3 or 5
  apply(PLUS, x, y, sum);                     // separate result edge: reference answer
  dd_edge z(x);
  apply(PLUS, z, y, z);                       // in place
  int bad = 0;
  for (int a = 0; a < 2; a++) for (int b = 0; b < 2; b++) {
    long want = at(sum, f, a, b), got = at(z, f, a, b);
    if (want != got) { printf("PLUS in place at (%d,%d): %ld, expected %ld\n", a, b, got, want); bad++; }
  }
  // one-step image, in place: distances +1 along the identity relation
  dd_edge id(fr), img(f), w(x);
  minterm r(fr); r.setVars(1, DONT_CARE, DONT_CHANGE); r.setVars(2, DONT_CARE, DONT_CHANGE); r.setValue(rangeval(true));
  r.buildFunction(rangeval(false), id);
  apply(POST_IMAGE, x, id, img);
  apply(POST_IMAGE, w, id, w);
  for (int a = 0; a < 2; a++) for (int b = 0; b < 2; b++) {
    long want = at(img, f, a, b), got = at(w, f, a, b);
    if (want != got) { printf("POST_IMAGE in place at (%d,%d): %ld, expected %ld\n", a, b, got, want); bad++; }
  }
  printf("%d wrong values\n", bad);
  cleanup();
  return bad ? 1 : 0;
}
