// C04/C10: UNION of two relations held in two DISTINCT forests that use the
// SAME reduction rule.  Where one operand is empty below an unprimed node, the
// union copies the other operand's primed node into the result forest by
// calling the copy operation at a PRIMED level.  copy_MT then took its
// relation-node path (meant for unprimed levels only), computed "next level"
// as (primed level - 1), and built nodes at non-existent levels: heap overflow
// in variable_order::getVarByLevel under ASan/valgrind, wrong nodes otherwise.
#include "meddly.h"
#include <cstdio>
using namespace MEDDLY;
int main(int argc, char** argv) {
  int red = argc > 1 ? atoi(argv[1]) : 1;   // 0 fully, 1 quasi, 2 identity
  initialize();
  int sizes[] = {2,2};
  domain* d = domain::createBottomUp(sizes, 2);
  policies p(true);
  if (red == 0) p.setFullyReduced(); else if (red == 1) p.setQuasiReduced(); else p.setIdentityReduced();
  forest* f1 = forest::create(d, true, range_type::BOOLEAN, edge_labeling::MULTI_TERMINAL, p);
  forest* f2 = forest::create(d, true, range_type::BOOLEAN, edge_labeling::MULTI_TERMINAL, p);
  dd_edge a(f1), b(f2), u(f1), want(f1), bb(f1);
  minterm m1(f1), m2(f2), m3(f1);
  m1.setVars(1,0,0); m1.setVars(2,0,0); m1.setValue(rangeval(true));
  m2.setVars(1,0,1); m2.setVars(2,1,0); m2.setValue(rangeval(true));
  m3.setVars(1,0,1); m3.setVars(2,1,0); m3.setValue(rangeval(true));
  m1.buildFunction(rangeval(false), a);
  m2.buildFunction(rangeval(false), b);
  m3.buildFunction(rangeval(false), bb);
  apply(UNION, a, bb, want);            // everything in one forest
  apply(UNION, a, b, u);                // operands in two forests of the same kind
  bool same = (u == want);
  long card = 0; apply(CARDINALITY, u, card);
  printf("cross-forest union identical to in-forest union: %d (expect 1), cardinality %ld (expect 2)\n", same, card);
  cleanup();
  return (same && card == 2) ? 0 : 1;
}
