// C04: INTERSECTION of two relations held in two distinct identity-reduced
// forests.  Where both operands reach the terminal TRUE above the bottom level
// (an identity pattern), inter_mt::_compute only recognised "A and A = A" for
// operands of the SAME forest and went on to unpack the terminals as nodes
// (null variable dereference).
#include "meddly.h"
#include <cstdio>
using namespace MEDDLY;
int main() {
  initialize();
  int sizes[] = {3,2};
  domain* d = domain::createBottomUp(sizes, 2);
  forest* f1 = forest::create(d, true, range_type::BOOLEAN, edge_labeling::MULTI_TERMINAL);   // identity-reduced
  forest* f2 = forest::create(d, true, range_type::BOOLEAN, edge_labeling::MULTI_TERMINAL);
  dd_edge a(f1), b(f2), c(f1), want(f1), b1(f1);
  minterm m1(f1), m2(f2), m3(f1);
  // a: x1 = 2 and unchanged, x2 moves to 1;  b: the identity relation
  m1.setVars(1, 2, DONT_CHANGE); m1.setVars(2, DONT_CARE, 1); m1.setValue(rangeval(true));
  m2.setVars(1, DONT_CARE, DONT_CHANGE); m2.setVars(2, DONT_CARE, DONT_CHANGE); m2.setValue(rangeval(true));
  m3.setVars(1, DONT_CARE, DONT_CHANGE); m3.setVars(2, DONT_CARE, DONT_CHANGE); m3.setValue(rangeval(true));
  m1.buildFunction(rangeval(false), a);
  m2.buildFunction(rangeval(false), b);
  m3.buildFunction(rangeval(false), b1);
  apply(INTERSECTION, a, b1, want);     // same forest
  apply(INTERSECTION, a, b, c);         // distinct forests of the same kind
  long card; apply(CARDINALITY, c, card);
  printf("cross-forest intersection == in-forest intersection: %d, cardinality %ld (expect 1)\n", int(c == want), card);
  bool ok = (c == want) && card == 1;
  cleanup();
  return ok ? 0 : 1;
}
