// C08: the same REACHABLE_SATUR operation (same forests) used first with one
// relation and then with another.  Firing results are cached under
// (set node, relation node) although each result has also been saturated
// with the rest of the relation below it; a sub-relation node shared by the
// two relations therefore brought states reachable only under the FIRST
// relation into the second answer (disagreement with breadth-first search).
#include "meddly.h"
#include <cstdio>
using namespace MEDDLY;
static const int X = DONT_CARE, E = DONT_CHANGE;
struct Row { int f1, t1, f2, t2; };
static void buildRel(forest* f, const Row* rows, unsigned n, dd_edge &out) {
  minterm_coll mc(n, f);
  for (unsigned i = 0; i < n; i++) {
    mc.unused().setVars(1, rows[i].f1, rows[i].t1);
    mc.unused().setVars(2, rows[i].f2, rows[i].t2);
    mc.unused().setValue(rangeval(true));
    mc.pushUnused();
  }
  mc.buildFunctionMax(rangeval(false), out);
}
static void buildSet(forest* f, const int (*pts)[2], unsigned n, dd_edge &out) {
  minterm_coll mc(n, f);
  for (unsigned i = 0; i < n; i++) {
    mc.unused().setVar(1, pts[i][0]); mc.unused().setVar(2, pts[i][1]);
    mc.unused().setValue(rangeval(true)); mc.pushUnused();
  }
  mc.buildFunctionMax(rangeval(false), out);
}
int main() {
  initialize();
  int sizes[] = {6,4};
  domain* d = domain::createBottomUp(sizes, 2);
  policies ps(false); ps.setQuasiReduced();
  forest* fs = forest::create(d, false, range_type::BOOLEAN, edge_labeling::MULTI_TERMINAL, ps);
  forest* fr = forest::create(d, true, range_type::BOOLEAN, edge_labeling::MULTI_TERMINAL);
  const Row r1[] = { {X,E,3,2}, {X,X,0,X}, {1,3,3,0}, {X,0,3,E}, {4,X,3,E}, {X,3,1,E}, {2,X,0,X}, {5,X,X,E}, {5,1,1,1}, {X,X,X,E}, {4,E,1,X} };
  const Row r2[] = { {5,5,0,X}, {4,E,X,3}, {3,E,X,E}, {3,E,3,3}, {4,4,2,2}, {5,X,2,E}, {X,X,3,X}, {1,E,2,X} };
  const int s1[][2] = { {4,3}, {2,0}, {5,2}, {0,X}, {X,X}, {3,X} };
  const int s2[][2] = { {3,1} };
  dd_edge rel1(fr), rel2(fr), init1(fs), init2(fs), a1(fs), sat2(fs), bfs2(fs);
  buildRel(fr, r1, 11, rel1); buildRel(fr, r2, 8, rel2);
  buildSet(fs, s1, 6, init1); buildSet(fs, s2, 1, init2);
  apply(REACHABLE_SATUR(false), init1, rel1, a1);       // first use of the operation
  apply(REACHABLE_SATUR(false), init2, rel2, sat2);     // same operation, other relation
  apply(REACHABLE_TRAD_NOFS(false), init2, rel2, bfs2);
  long cs, cb; apply(CARDINALITY, sat2, cs); apply(CARDINALITY, bfs2, cb);
  printf("second call: saturation finds %ld states, breadth-first search %ld; same edge: %d\n", cs, cb, int(sat2 == bfs2));
  bool ok = (sat2 == bfs2);
  cleanup();
  return ok ? 0 : 1;
}
