// C05: MIN_RANGE / MAX_RANGE on an identity-reduced relation forest.  A
// function that is 3 where x2' = x2 and 0 elsewhere is stored with the x2
// levels skipped (identity pattern); the range recursion never looked at
// skipped levels, so it reported minimum 3 (and, for negative values on the
// diagonal, a maximum below 0) although the function is 0 off the diagonal.
#include "meddly.h"
#include <cstdio>
using namespace MEDDLY;
int main() {
  initialize();
  int sizes[] = {4,4};
  domain* d = domain::createBottomUp(sizes, 2);
  forest* f = forest::create(d, true, range_type::INTEGER, edge_labeling::MULTI_TERMINAL);   // identity-reduced
  dd_edge pos(f), neg(f);
  minterm m(f);
  m.setVars(1, DONT_CARE, DONT_CARE); m.setVars(2, DONT_CARE, DONT_CHANGE);
  m.setValue(rangeval(3L));  m.buildFunction(rangeval(0L), pos);
  m.setValue(rangeval(-2L)); m.buildFunction(rangeval(0L), neg);
  long mn = 99, mx = -99;
  apply(MIN_RANGE, pos, mn);
  apply(MAX_RANGE, neg, mx);
  printf("minimum of {3 on the diagonal of x2, 0 elsewhere}: %ld (expect 0); maximum of {-2 on it, 0 elsewhere}: %ld (expect 0)\n", mn, mx);
  cleanup();
  return (mn == 0 && mx == 0) ? 0 : 1;
}
