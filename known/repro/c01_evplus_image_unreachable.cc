// C01/C09: the pre-image of an EV+ distance function under the EMPTY relation
// is "+infinity everywhere".  Before the fix the result edge was
// <v, omega-infinity> with v the operand's root edge value, which evaluates to
// infinity but is not equal (operator==) to the canonical infinity edge.
#include "meddly.h"
#include <cstdio>
using namespace MEDDLY;
int main() {
  initialize();
  int sizes[] = {2,2};
  domain* d = domain::createBottomUp(sizes, 2);
  forest* fs = forest::create(d, false, range_type::INTEGER, edge_labeling::EVPLUS);
  forest* fr = forest::create(d, true, range_type::BOOLEAN, edge_labeling::MULTI_TERMINAL);
  dd_edge dist(fs), norel(fr), img(fs), inf(fs);
  fs->createConstant(rangeval(3L), dist);                 // distance 3 everywhere: edge <3, omega>
  fr->createConstant(rangeval(false), norel);             // empty relation
  fs->createConstant(rangeval(range_special::PLUS_INFINITY, range_type::INTEGER), inf);
  apply(PRE_IMAGE, dist, norel, img);
  FILE_output out(stdout);
  out << "image: "; img.show(out); out << "\ninfinity: "; inf.show(out); out << "\n";
  bool same = (img == inf);
  printf("image == infinity constant: %d (expect 1)\n", same);
  cleanup();
  return same ? 0 : 1;
}
