// C17/C07: with per-operation compute tables, destroy a forest that shares a
// cached operation with a surviving forest, then clear the surviving forest's
// compute-table entries.  Before the fix ct_tmpl::removeAll() deleted the
// last entry of the (already destroyed) operation's table, which deleted the
// entry type, which deleted the table itself while removeAll() was still
// looping over it (heap use-after-free; run under valgrind or ASan).
#include "meddly.h"
#include <cstdio>
using namespace MEDDLY;
int main() {
  initializer_list* L = defaultInitializerList(nullptr);
  ct_initializer::setBuiltinStyle(ct_initializer::OperationUnchainedHash);
  initialize(L);
  int sizes[] = {3,3};
  domain* d = domain::createBottomUp(sizes, 2);
  forest* f1 = forest::create(d, false, range_type::INTEGER, edge_labeling::MULTI_TERMINAL);
  forest* f2 = forest::create(d, false, range_type::INTEGER, edge_labeling::MULTI_TERMINAL);
  dd_edge a(f1), b(f2), c(f1);
  f1->createEdgeForVar(1, false, a);
  f2->createEdgeForVar(2, false, b);
  apply(PLUS, a, a, a);
  apply(GREATER_THAN_EQUAL, b, a, c);     // operation over (f2, f1, f1), entries in its own table
  forest::destroy(f2);                    // destroys the operation; its table keeps the entries
  f1->removeAllComputeTableEntries();     // last entry removed -> entry type and table deleted mid-loop
  long card; apply(CARDINALITY, c, card);
  printf("survived, cardinality %ld\n", card);
  cleanup();
  return 0;
}
