// C15: lookup in the index set of the EMPTY set must fail (return false)
// for every index; before the fix getElement(0, m) dereferenced a null
// variable (terminal node 0 unpacked as if it were a node).
#include "meddly.h"
#include <cstdio>
using namespace MEDDLY;
int main() {
  initialize();
  int sizes[] = {2,3};
  domain* d = domain::createBottomUp(sizes, 2);
  forest* fs = forest::create(d, false, range_type::BOOLEAN, edge_labeling::MULTI_TERMINAL);
  forest* fi = forest::create(d, false, range_type::INTEGER, edge_labeling::INDEX_SET);
  dd_edge empty(fs), idx(fi);
  fs->createConstant(rangeval(false), empty);
  apply(CONVERT_TO_INDEX_SET, empty, idx);
  minterm m(fi);
  bool a = idx.getElement(-1, m);
  bool b = idx.getElement(0L, m);
  bool c = idx.getElement(1L, m);
  bool e = idx.getElement(0, m);     // int overload
  printf("getElement on the empty index set: %d %d %d %d (expect 0 0 0 0)\n", a, b, c, e);
  cleanup();
  return (a||b||c||e) ? 1 : 0;
}
