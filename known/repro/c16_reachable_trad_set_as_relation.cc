// C16: REACHABLE_TRAD_NOFS / REACHABLE_TRAD_FS called with a SET where the
// transition relation belongs (a set/relation mismatch).  The image operation
// cannot be built for those forests (build() returns null); before the fix the
// factories passed the null pointer to the reachset_* constructor, which
// dereferences it in its initialiser list: a crash instead of a library error.
#include "meddly.h"
#include <cstdio>
using namespace MEDDLY;
int main() {
  initialize();
  int sizes[] = {3,2};
  domain* d = domain::createBottomUp(sizes, 2);
  policies p(false); p.setQuasiReduced();
  forest* fs = forest::create(d, false, range_type::INTEGER, edge_labeling::MULTI_TERMINAL, p);  // distance-valued sets: REACHABLE_TRAD_NOFS only
  dd_edge init(fs), notrel(fs), res(fs);
  fs->createConstant(rangeval(1L), init);
  fs->createConstant(rangeval(1L), notrel);
  int bad = 0;
  for (int alg = 0; alg < 2; alg++) {
    try {
      if (alg < 2) apply(REACHABLE_TRAD_NOFS(alg & 1), init, notrel, res);
      else         apply(REACHABLE_TRAD_FS(alg & 1), init, notrel, res);
      printf("algorithm %d: no error raised\n", alg); bad++;
    } catch (MEDDLY::error &e) {
      printf("algorithm %d: error %s (expected: any library error)\n", alg, e.getName());
    }
  }
  cleanup();
  return bad ? 1 : 0;
}
