// C20: pregen_relation "by levels".
//  (1) finalize() with any splitting option other than None called
//      Mp->initIdentity(-k, i, Mu->down(i), FULL_ONLY): after an API change this
//      binds to initIdentity(level, index, EDGE VALUE, NODE) - the node handle
//      became an edge value and FULL_ONLY a node - and wrote an edge value into
//      a multi-terminal node (null reference; crash) as soon as a row skipped
//      its primed level.
//  (2) unionLevels() (MonolithicSplit) stored the union under
//      events[u.getLevel()]; for a union whose top node is primed the level is
//      negative (write before the array).
// The program only checks that finalize() completes; whether by-levels
// saturation then returns the right set is a separate recorded finding.
#include "meddly.h"
#include <cstdio>
using namespace MEDDLY;
int main(int argc, char** argv) {
  int opt = argc > 1 ? atoi(argv[1]) : 1;
  initialize();
  int sizes[] = {2,3,2};
  domain* d = domain::createBottomUp(sizes, 3);
  forest* fr = forest::create(d, true, range_type::BOOLEAN, edge_labeling::MULTI_TERMINAL);
  dd_edge ev(fr);
  minterm m(fr);
  // x2: 1 -> 1 is fixed, the other variables are unchanged
  m.setVars(1, DONT_CARE, DONT_CHANGE); m.setVars(2, 1, DONT_CHANGE); m.setVars(3, DONT_CARE, DONT_CHANGE);
  m.setValue(rangeval(true));
  m.buildFunction(rangeval(false), ev);
  dd_edge ev2(fr);
  minterm m2(fr);
  m2.setVars(1, 0, 1); m2.setVars(2, DONT_CARE, DONT_CHANGE); m2.setVars(3, DONT_CARE, DONT_CHANGE);
  m2.setValue(rangeval(true));
  m2.buildFunction(rangeval(false), ev2);
  pregen_relation* pr = new pregen_relation(fr);      // by levels
  pr->addToRelation(ev);
  pr->addToRelation(ev2);
  pr->finalize(pregen_relation::splittingOption(opt));
  printf("finalize(option %d) completed\n", opt);
  delete pr;
  cleanup();
  return 0;
}
