#include "meddly.h"
#include <cstdio>
#include <vector>
using namespace MEDDLY;
int main(int argc, char** argv) {
  int red = argc > 1 ? atoi(argv[1]) : 2;
  initialize();
  int sizes[] = {4,2,3};
  domain* d = domain::createBottomUp(sizes, 3);
  policies p(true);
  if (red==2) p.setIdentityReduced(); else if (red==1) p.setQuasiReduced(); else p.setFullyReduced();
  forest* f = forest::create(d, true, range_type::BOOLEAN, edge_labeling::MULTI_TERMINAL, p);
  minterm m(f);
  m.setVars(1,1,0); m.setVars(2,0,0); m.setVars(3,2,0); m.setValue(rangeval(true));
  dd_edge e(f), c(f);
  m.buildFunction(rangeval(false), e);
  apply(COMPLEMENT, e, c);
  // table before
  std::vector<int> before;
  minterm q(f);
  for (int a1=0;a1<4;a1++) for (int a2=0;a2<2;a2++) for (int a3=0;a3<3;a3++)
  for (int b1=0;b1<4;b1++) for (int b2=0;b2<2;b2++) for (int b3=0;b3<3;b3++) {
    q.setVars(1,a1,b1); q.setVars(2,a2,b2); q.setVars(3,a3,b3);
    rangeval rv; c.evaluate(q, rv); before.push_back(bool(rv));
  }
  int l2v[] = {0,3,2,1};
  f->reorderVariables(l2v);
  printf("order now:"); for (int k=1;k<=3;k++) printf(" %d", f->getVarByLevel(k)); printf("\n");
  int bad=0, idx=0;
  for (int a1=0;a1<4;a1++) for (int a2=0;a2<2;a2++) for (int a3=0;a3<3;a3++)
  for (int b1=0;b1<4;b1++) for (int b2=0;b2<2;b2++) for (int b3=0;b3<3;b3++) {
    int av[4]={0,a1,a2,a3}, bv[4]={0,b1,b2,b3};
    for (int k=1;k<=3;k++) { int v=f->getVarByLevel(k); q.setVars(k, av[v], bv[v]); }
    rangeval rv; c.evaluate(q, rv);
    if (bool(rv) != before[idx]) { if (bad<5) printf("mismatch at x=(%d,%d,%d) x'=(%d,%d,%d): before %d after %d\n",a1,a2,a3,b1,b2,b3,before[idx],int(bool(rv))); bad++; }
    idx++;
  }
  printf("red=%d mismatches=%d\n", red, bad);
  cleanup();
  return bad?1:0;
}
