// C05/C02: DIST_INC from a fully-reduced into a quasi-reduced MT integer
// forest.  Before the fix the redundant nodes for the levels above the
// operand's top node were stacked from level 1 again (makeRedundantsTo(cp, 0, L)
// instead of starting at the operand node's level), giving a malformed graph:
// a level-1 node whose children are level-1 nodes.  The result then differs
// from the same function built directly in the quasi-reduced forest.
#include "meddly.h"
#include <cstdio>
using namespace MEDDLY;
int main() {
  initialize();
  int sizes[] = {2,2};
  domain* d = domain::createBottomUp(sizes, 2);
  policies q(false); q.setQuasiReduced();
  forest* ff = forest::create(d, false, range_type::INTEGER, edge_labeling::MULTI_TERMINAL);
  forest* fq = forest::create(d, false, range_type::INTEGER, edge_labeling::MULTI_TERMINAL, q);
  rangeval t1[] = { rangeval(6L), rangeval(5L) };
  rangeval t2[] = { rangeval(7L), rangeval(6L) };
  dd_edge x(ff), inc(fq), want(fq);
  ff->createEdgeForVar(1, false, t1, x);      // f = 6 or 5 depending on x1
  fq->createEdgeForVar(1, false, t2, want);   // f+1 built directly
  apply(DIST_INC, x, inc);
  FILE_output out(stdout);
  inc.showGraph(out);
  bool same = (inc == want);
  printf("DIST_INC result identical to the directly built f+1: %d (expect 1); nodes %lu vs %lu\n",
         same, inc.getNodeCount(), want.getNodeCount());
  cleanup();
  return same ? 0 : 1;
}
