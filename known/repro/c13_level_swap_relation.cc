// C13: policies::isLevelSwap() compared against VAR, so a relation forest
// configured for LEVEL swaps performed no swap at all: reorderVariables()
// returned with the order unchanged (SINK_DOWN, ...) or never returned
// (RANDOM keeps re-queueing the same inversion).  After the fix the
// unsupported combination raises NOT_IMPLEMENTED.
#include "meddly.h"
#include <cstdio>
#include <unistd.h>
using namespace MEDDLY;
int main(int argc, char** argv) {
  bool rnd = argc > 1;
  alarm(10);    // the RANDOM variant used to hang
  initialize();
  int sizes[] = {2,3,2};
  domain* d = domain::createBottomUp(sizes, 3);
  policies p(true);
  p.setQuasiReduced();
  p.setLevelSwap();
  if (rnd) p.setRandom(); else p.setSinkDown();
  forest* f = forest::create(d, true, range_type::BOOLEAN, edge_labeling::MULTI_TERMINAL, p);
  dd_edge e(f);
  f->createEdgeForVar(2, false, e);
  int l2v[] = {0, 3, 1, 2};
  bool threw = false;
  try { f->reorderVariables(l2v); }
  catch (MEDDLY::error &x) { threw = true; printf("error raised: %s\n", x.getName()); }
  bool reached = true;
  for (int k = 1; k <= 3; k++) if (f->getVarByLevel(k) != l2v[k]) reached = false;
  printf("threw=%d order reached=%d (one of the two must hold)\n", threw, reached);
  cleanup();
  return (threw || reached) ? 0 : 1;
}
