// C20: saturation over a partitioned relation (by events) in a FULLY-reduced
// set forest.  Initial set {x3 = 2}; event A: (x1: 2->2, x3: 2->1) or
// (x1: 2->0, x3: 2->2); event B: x1: 2->0 where x2 = 1 (x2 unchanged).
// State (x1,x2,x3) = (0,1,1) is reachable: (2,1,2) -A-> (2,1,1) -B-> (0,1,1).
#include "meddly.h"
#include <cstdio>
using namespace MEDDLY;
int main(int argc, char** argv) {
  bool quasi = argc > 1;
  initialize();
  int sizes[] = {4,2,3};
  domain* d = domain::createBottomUp(sizes, 3);
  policies ps(false); if (quasi) ps.setQuasiReduced(); else ps.setFullyReduced();
  forest* fs = forest::create(d, false, range_type::BOOLEAN, edge_labeling::MULTI_TERMINAL, ps);
  forest* fr = forest::create(d, true, range_type::BOOLEAN, edge_labeling::MULTI_TERMINAL);   // identity-reduced
  dd_edge init(fs), evA(fr), evB(fr), un(fr), sat(fs), bfs(fs);
  rangeval t[] = { rangeval(false), rangeval(false), rangeval(true) };
  fs->createEdgeForVar(3, false, t, init);
  {
    minterm_coll mc(2, fr);
    mc.unused().setVars(1, 2, 2); mc.unused().setVars(2, DONT_CARE, DONT_CHANGE); mc.unused().setVars(3, 2, 1); mc.unused().setValue(rangeval(true)); mc.pushUnused();
    mc.unused().setVars(1, 2, 0); mc.unused().setVars(2, DONT_CARE, DONT_CHANGE); mc.unused().setVars(3, 2, 2); mc.unused().setValue(rangeval(true)); mc.pushUnused();
    mc.buildFunctionMax(rangeval(false), evA);
  }
  {
    minterm_coll mc(1, fr);
    mc.unused().setVars(1, 2, 0); mc.unused().setVars(2, 1, DONT_CHANGE); mc.unused().setVars(3, DONT_CARE, DONT_CHANGE); mc.unused().setValue(rangeval(true)); mc.pushUnused();
    mc.buildFunctionMax(rangeval(false), evB);
  }
  pregen_relation* pr = new pregen_relation(fr, 2);
  pr->addToRelation(evA); pr->addToRelation(evB);
  pr->finalize();
  saturation_operation* op = SATURATION_FORWARD(fs, pr, fs);
  op->compute(init, sat);
  apply(UNION, evA, evB, un);
  apply(REACHABLE_TRAD_NOFS(true), init, un, bfs);
  long cs, cb; apply(CARDINALITY, sat, cs); apply(CARDINALITY, bfs, cb);
  minterm m(fs); m.setVar(1,0); m.setVar(2,1); m.setVar(3,1);
  rangeval rv; sat.evaluate(m, rv);
  printf("%s set forest: saturation %ld states, breadth-first %ld states, (0,1,1) in saturation result: %d, same edge: %d\n",
         quasi ? "quasi-reduced" : "fully-reduced", cs, cb, int(bool(rv)), int(sat == bfs));
  bool ok = (sat == bfs);
  cleanup();
  return ok ? 0 : 1;
}
