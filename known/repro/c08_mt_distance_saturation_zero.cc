// C08: saturation with multi-terminal INTEGER distance sets ("negative =
// unreachable").  States at distance 0 are stored as the terminal 0, which
// is also the forest's transparent value.  saturate_1 unpacked the operand
// SPARSE_ONLY (dropping those children, i.e. treating distance 0 as
// unreachable) and seeded the explorer with "if (Cu->down(i))" (skipping
// them again), so paths through a distance-0 state were never explored.
#include "meddly.h"
#include <cstdio>
using namespace MEDDLY;
int main() {
  initialize();
  int sizes[] = {2};
  domain* d = domain::createBottomUp(sizes, 1);
  forest* fs = forest::create(d, false, range_type::INTEGER, edge_labeling::MULTI_TERMINAL);
  forest* fr = forest::create(d, true, range_type::BOOLEAN, edge_labeling::MULTI_TERMINAL);
  rangeval t[] = { rangeval(3L), rangeval(0L) };
  dd_edge init(fs), rel(fr), bfs(fs), sat(fs);
  fs->createEdgeForVar(1, false, t, init);          // state 0 at distance 3, state 1 at distance 0
  fr->createConstant(rangeval(true), rel);          // every transition allowed
  apply(REACHABLE_TRAD_NOFS(true), init, rel, bfs);
  apply(REACHABLE_SATUR(true), init, rel, sat);
  minterm m(fs); rangeval rv; long b[2], s[2];
  for (int x = 0; x < 2; x++) { m.setVar(1, x); bfs.evaluate(m, rv); b[x] = long(rv); sat.evaluate(m, rv); s[x] = long(rv); }
  printf("breadth-first distances: %ld %ld   saturation distances: %ld %ld   (expected 1 0)\n", b[0], b[1], s[0], s[1]);
  bool ok = (b[0] == 1 && b[1] == 0 && s[0] == 1 && s[1] == 0 && bfs == sat);
  cleanup();
  return ok ? 0 : 1;
}
